"""TIE-C for Model/CoreRw.v: the structural mutators of mutators_core.py, LetElimination and the candidate names of
SimplifySymbolNames, compared with filter + mutations of the implementation on every node of the given texts."""
import common
from common import w_shape, w_shapes, w_str, r_str

MALFORMED = ['(define-fun f ((a Int) (b Int)) Int (- a b))(assert (= (f b a) (f 1 2) (f (f 1 2) a) (f 1) f (f)))',
             '(define-fun c () Int 5)(define-fun c () Int 6)(assert (= c (c) (c 1)))', '(define-fun f ((a Int) (a Int)) Int (+ a a))(assert (= (f 1 2) 0))',
             '(define-fun f (a) Int a)(assert (= (f 1) 0))', '(define-fun f (()) Int 1)(assert (= (f 1) 0))', '(define-fun f (((p q) Int)) Int (g (p q)))(assert (= (f 1) 0))',
             '(define-fun f () Int g)(define-fun g () Int f)(assert (= f g))', '(define-fun f ((x Int)) Int (+ 1 (f x)))(assert (= (f 1) 0))',
             '(define-fun f ((x Int)) Int (g x))(define-fun g ((y Int)) Int (h y))(define-fun h ((z Int)) Int (f z))(define-fun k ((z Int)) Int (f z))(assert (= (k 1) (g 2)))',
             '(define-fun f ((x Int)) Int (let ((y 1)) (+ x y)))(declare-const y Int)(assert (= (f y) 0))', '(define-fun f ((x Int)) Int x)(assert (f))', '(define-fun f ((x Int)) Int 7)(assert (= (f 7) 7))',
             '(let x y)', '(let xy y)', '(let (x) y)', '(let (xy) y)', '(let (()) y)', '(let ((x)) y)', '(let ((x 1) (y)) x)', '(let ((x 1 2)) (f x) extra)',
             '(let ((x 1)) x)', '(let (((a b) 1)) (f (a b)))', '(let ((x 1)) (let ((y x)) x))', '(let ((x (f y))) (forall ((y Int)) x))',
             '(let ((x (f y))) (match x (((c y) x))))', '(let () y)', '(let ((x y) (y 1)) (+ x y))', '(let ((x 2)) (let ((x 5)) (+ x 1)))',
             '(let ((x (+ y 1))) (let ((y 5)) (+ x y)))', '(let ((x 1) (z x)) (+ x z))', '(let ((x (g x))) (f x))', '(let ((x 1)) (lambda ((x Int)) x))',
             '(let ((x y)) (match x ((y y) ((c z) x))))', '(let ((x 1)) (exists (y) (f x y)))', '(let ((x 1)) (exists y (f x y)))', '(let ((x y)) (let y x))',
             '(assert (and))', '(assert (and (and)))', '(assert (and (and a) (or b) (and c d)))', '(assert (let))', '(assert (let ((x 1))))',
             '(assert (let ((x 1)) x y))', '(assert ())', '(assert (()))', '(assert ((and a) (and b)))', '(assert (= (= a b) (= c)))',
             '(assert (+ (+) (+ 1) (+ 1 2 3)))', '(a b c d e f g h)', '(a b c d e f g h i j k l m n o p q)', '((a) (b) (c) (d) (e) (f) (g) (h) (i))',
             '(assert (and (and a b) c (and d (and e f))))', '(assert (or (b a) a (c b a) ()))', '(assert (concat (concat x y) (concat z)))',
             '(declare-const |a b c d| Int)', '(declare-const |x| Int)', '(declare-const | | Int)', '(declare-const || Int)', '(declare-const | Int)',
             '(declare-const abcd12 Int)', '(declare-const x123 Int)', '(declare-const 1a Int)', '(declare-const a1 Int)', '(declare-const true1 Bool)',
             '(declare-const xfalse Bool)', '(declare-const #b01x Bool)', '(declare-const x#b01 Bool)', '(declare-const _v (_ BitVec 1))',
             '(declare-const __ Int)', '(declare-const asx Int)', '(declare-const xas Int)', '(declare-const letx Int)', '(declare-const !! Int)',
             '(declare-const par1 Int)', '(declare-const "12\n" Int)', '(declare-const 12\n" Int)', '(declare-const x1.5 Real)', '(declare-const 1.5x Real)',
             '(declare-const "ab" Int)', '(declare-const x"a" Int)', '(declare-const x"" Int)', '(declare-fun ff (Int) Int)(declare-const f Int)',
             '(declare-const ab Int)(declare-const a Int)(declare-const b Int)', '(declare-const #xAB1 Int)', '(declare-const x#xAB Int)',
             '(define-fun g10 () Int 1)(declare-const g1 Int)', '(declare-const STRINGS Int)', '(declare-const _NUMERAL Int)',
             '(declare-datatype Color ((red) (green)))', '(assert (forall ((xy Int) (yz Int)) (> xy yz)))']


def py_simpler(sym):
    out = []
    if len(sym) > 3:
        out.append(sym[:len(sym) // 2])
    if len(sym) > 1:
        out += [sym[:-1], sym[1:]]
    return out


def run(ctx, impl, model, rng, texts, max_children=9):
    from ddsmt import mutators_core, mutators_smtlib
    smtlib, nodes = impl.smtlib, impl.nodes
    M = dict(rbc=mutators_core.ReplaceByChild(), merge=mutators_core.MergeWithChildren(), sort=mutators_core.SortChildren(),
             binred=mutators_core.BinaryReduction(), letel=mutators_smtlib.LetElimination(), erase=mutators_core.EraseNode(),
             ssn=mutators_smtlib.SimplifySymbolNames(), letsub=mutators_smtlib.LetSubstitution(), inline=mutators_smtlib.InlineDefinedFuns())
    calls, meta = [], []

    def props(m, node):
        if hasattr(m, 'filter') and not m.filter(node):
            return []
        return [sp.substs[node.id] for sp in m.mutations(node)]

    def add(code, arg, what, node, thunk):
        try:
            with common.time_limit(5):
                got = [1, w_shapes([impl.to_shape(x) for x in thunk()])]
        except Exception as e:  # noqa
            got = [0]        # the model says None = raises (which exception is not modelled)
        calls.append((code, arg))
        meta.append((what, str(node)[:200], got))

    for text in list(texts) + MALFORMED:
        exprs = impl.parse(text)
        smtlib.collect_information(exprs)
        # the table of definitions as collect_information recorded it (the lambdas keep their command as default argument)
        defs, in_defs = [], set()
        dfuns = getattr(smtlib, '__defined_functions')
        for key, (arity, func) in dfuns.items():
            cmd = func.__defaults__[0]
            defs.append([w_str(cmd[1].data), [w_shape(impl.to_shape(f)) for f in cmd[2].data], w_shape(impl.to_shape(cmd[4]))])
        for cmd in exprs:
            if cmd.has_ident() and cmd.get_ident() == 'define-fun':
                in_defs |= set(n.id for n in nodes.dfs(cmd))
        for node in nodes.dfs(exprs):
            sh = w_shape(impl.to_shape(node))
            if node.id not in in_defs:       # a use site: the model does not know node identities
                add(98, [sh, defs], 'InlineDefinedFuns', node, lambda node=node: props(M['inline'], node))
            if not node.is_leaf() and len(node) <= max_children:
                def erase(node=node):
                    assert M['erase'].filter(node)
                    out = []
                    for ch in node.data:
                        sp = M['erase'].mutations(ch)[0]
                        out.append(nodes.substitute(node, sp.substs))
                    return out
                if len(set(id(c) for c in node.data)) == len(node.data) and len(set(c.id for c in node.data)) == len(node.data):
                    add(90, [sh], 'EraseNode', node, erase)
            sorts = []
            for n_ in ([node] + list(node.data[1:]) if not node.is_leaf() else [node]):
                so = smtlib.get_sort(n_)
                sorts.append([w_shape(impl.to_shape(n_)), [] if so is None else [w_shape(impl.to_shape(so))]])
            add(91, [sh, sorts], 'ReplaceByChild', node, lambda node=node: props(M['rbc'], node))
            add(92, [sh], 'MergeWithChildren', node, lambda node=node: props(M['merge'], node))
            add(93, [sh], 'SortChildren', node, lambda node=node: props(M['sort'], node))
            add(94, [sh], 'BinaryReduction', node, lambda node=node: props(M['binred'], node))
            add(95, [sh], 'LetElimination', node, lambda node=node: props(M['letel'], node))
            add(97, [sh], 'LetSubstitution', node, lambda node=node: props(M['letsub'], node))
        # candidate names of SimplifySymbolNames
        for cmd in exprs:
            try:
                ok = M['ssn'].filter(cmd)
            except Exception:  # noqa
                ok = False
            if not ok or cmd.get_ident().data not in ('declare-const', 'declare-fun', 'define-fun', 'declare-sort') or not cmd[1].is_leaf():
                continue
            sym = cmd[1].data
            try:
                got = [list(sp.substs.values())[0].data for sp in M['ssn'].global_mutations(cmd, exprs)]
                got = [1, [w_str(s) for s in got]]
            except Exception as e:  # noqa
                got = [0, type(e).__name__]
            cands = set(py_simpler(sym))
            if len(sym) >= 1 and sym[0] == '|' and sym[-1] == '|':
                cands |= set('|' + t + '|' for t in py_simpler(sym[1:-1]))
            isvar = [w_str(t) for t in sorted(cands) if smtlib.is_declared_symbol(impl.Node(t))]
            calls.append((96, [w_str(sym), isvar]))
            meta.append(('SimplifySymbolNames (names)', sym, got))
    res = model.batch(calls)
    for (what, node, want), (code, _), got in zip(meta, calls, res):
        ctx.count('core-rewrite model comparisons')
        if code == 96:
            got = [1, got]
        if got != want:
            ctx.disagree(f'mutations of {what} vs Model/CoreRw.v', input=node, impl=repr(want)[:400], model=repr(got)[:400])
    return len(calls)
