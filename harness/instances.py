"""Targeted well-sorted instances: for every mutator class a generator of inputs
containing terms that mutator accepts (random operand terms, bit-widths, index
values, constant notations).  Used by C15, C17, C03."""
import smtgen
from smtgen import Gen, T, app, syn, leaf, bv, BOOL, INT, REAL, STRING


def bvconst(rng, n, v=None, notation=None):
    v = rng.randrange(2 ** n) if v is None else v
    notation = notation or rng.choice(['b', 'x', 'u'])
    if notation == 'x' and n % 4 == 0:
        return leaf('#x' + format(v, f'0{n // 4}x'), bv(n))
    if notation == 'b':
        return leaf('#b' + format(v, f'0{n}b'), bv(n))
    return T(None, [syn('_'), syn(f'bv{v}'), syn(str(n))], bv(n))


def idx(op, *ks):
    return syn(('_', op) + tuple(str(k) for k in ks))


def make(rng, cls, exotic=0.0, kind=None):
    """Returns (script text, the interesting term as T) for one instance accepted by mutator cls, or None."""
    g = Gen(rng, ['core', 'ints', 'reals', 'bv', 'strings', 'dt', 'arrays'], quant=True, exotic=exotic)
    g.declare(nvars=5)
    d = rng.choice([0, 1, 1, 2])
    w = rng.choice([1, 2, 3, 4, 5, 8])
    t = None
    pre, post = [], []
    if cls == 'ArithmeticNegateRelation':
        s = rng.choice([INT, REAL])
        rel = rng.choice(['=', '<', '>', '>=', '<=', 'distinct'])
        t = app('not', [app(rel, [g.term(s, d) for _ in range(rng.choice([2, 2, 3]))], BOOL)], BOOL)
    elif cls == 'ArithmeticSplitNaryRelation':
        s = rng.choice([INT, REAL])
        t = app(rng.choice(['=', '<', '>', '>=', '<=']), [g.term(s, d) for _ in range(rng.choice([3, 4]))], BOOL)
    elif cls == 'ArithmeticStrengthenRelation':
        s = rng.choice([INT, REAL])
        t = app(rng.choice(['<', '>', '>=', '<=', 'distinct']), [g.term(s, d) for _ in range(2)], BOOL)
    elif cls == 'ArithmeticSimplifyConstant':
        c = leaf(rng.choice(['7', '10', '100', '255', '12.5', '3.25', '1000.0', '2.0']), None)
        c.sort = REAL if '.' in c.op else INT
        t = app('<', [c, g.term(c.sort, d)], BOOL)
    elif cls == 'BVConcatToZeroExtend':
        k = rng.choice([1, 2, 3, 4])
        t0 = app('concat', [bvconst(rng, k, 0), g.term(bv(w), d)], bv(w + k))
        t = app('=', [t0, g.term(bv(w + k), 0)], BOOL)
    elif cls == 'BVDoubleNegation':
        op = rng.choice(['bvnot', 'bvneg'])
        t = app('=', [app(op, [app(op, [g.term(bv(w), d)], bv(w))], bv(w)), g.term(bv(w), 0)], BOOL)
    elif cls == 'BVElimBVComp':
        c = bvconst(rng, 1)
        args = [c, app('bvcomp', [g.term(bv(w), d), g.term(bv(w), d)], bv(1))]
        if rng.random() < 0.3:
            args.append(g.term(bv(1), 0))
        if rng.random() < 0.2:
            args.append(app('bvcomp', [g.term(bv(w), 0), g.term(bv(w), 0)], bv(1)))
        t = app('=', args, BOOL)
    elif cls == 'BVEvalExtend':
        k = rng.choice([0, 1, 2, 3, 5])
        op = rng.choice(['zero_extend', 'sign_extend'])
        c = bvconst(rng, w, rng.choice([0, 2 ** w - 1, 2 ** (w - 1), None]))
        t = app('=', [T(None, [idx(op, k), c], bv(w + k)), g.term(bv(w + k), 0)], BOOL)
    elif cls == 'BVExtractConstants':
        hi = rng.randrange(w)
        lo = rng.randrange(hi + 1)
        c = bvconst(rng, w)
        t = app('=', [T(None, [idx('extract', hi, lo), c], bv(hi - lo + 1)), g.term(bv(hi - lo + 1), 0)], BOOL)
    elif cls == 'BVExtractZeroExtend':
        k = rng.choice([1, 2, 4])
        hi = rng.randrange(w + k)
        lo = rng.randrange(hi + 1)
        inner = T(None, [idx('zero_extend', k), g.term(bv(w), d)], bv(w + k))
        t = app('=', [T(None, [idx('extract', hi, lo), inner], bv(hi - lo + 1)), g.term(bv(hi - lo + 1), 0)], BOOL)
    elif cls == 'BVIteToBVComp':
        c1, c0 = bvconst(rng, 1, 1), bvconst(rng, 1, 0)
        t0 = app('ite', [app('=', [g.term(bv(w), d), g.term(bv(w), d)], BOOL), c1, c0], bv(1))
        t = app('=', [t0, g.term(bv(1), 0)], BOOL)
    elif cls == 'BVReflexiveNand':
        x = g.term(bv(w), d)
        t = app('=', [app('bvnand', [x, x], bv(w)), g.term(bv(w), 0)], BOOL)
    elif cls == 'BVTransformToBool':
        op = rng.choice(['bvand', 'bvor', 'bvxor'])
        c = bvconst(rng, 1)
        inner = app(op, [g.term(bv(1), d), g.term(bv(1), d)], bv(1))
        t = app('=', [c, inner] if rng.random() < 0.5 else [inner, c], BOOL)
    elif cls == 'BVZeroExtendPredicate':
        k1, k2 = rng.choice([(2, 2), (1, 3), (4, 2), (0, 2)])
        total = w + max(k1, k2)
        a = T(None, [idx('zero_extend', k1), g.term(bv(total - k1), d)], bv(total))
        b = T(None, [idx('zero_extend', k2), g.term(bv(total - k2), d)], bv(total))
        t = app(rng.choice(['=', 'distinct', 'bvult', 'bvule', 'bvugt', 'bvuge', 'bvslt', 'bvsle', 'bvsgt', 'bvsge']), [a, b], BOOL)
    elif cls == 'BvMergeExtend':
        # nests of depth 2..4; the two outermost operators agree (the filter), deeper ones are arbitrary
        op = rng.choice(['zero_extend', 'sign_extend'])
        depth = rng.choice([2, 2, 3, 3, 4])
        ops = [op, op] + [rng.choice(['zero_extend', 'sign_extend']) for _ in range(depth - 2)]
        cur = g.term(bv(w), d)
        width = w
        for o in reversed(ops):
            k = rng.choice([0, 1, 2, 3])
            width += k
            cur = T(None, [idx(o, k), cur], bv(width))
        t = app('=', [cur, g.term(bv(width), 0)], BOOL)
    elif cls == 'BVNormalizeConstants':
        t = app('=', [bvconst(rng, w, notation=rng.choice(['b', 'x'])), g.term(bv(w), d)], BOOL)
    elif cls == 'BVSimplifyConstants':
        t = app('=', [bvconst(rng, 8, rng.choice([77, 200, 255, 64])), g.term(bv(8), d)], BOOL)
    elif cls == 'BVReduceBW':
        t = app('=', [g.term(bv(8), d), g.term(bv(8), 0)], BOOL)
    elif cls == 'BVMergeReducedBW':
        pre = [syn(('declare-const', '__w', bv(2))),
               syn(('define-fun', '_w', (), bv(4), (('_', 'zero_extend', '2'), '__w'))),
               syn(('define-fun', 'w', (), bv(8), (('_', 'zero_extend', '4'), '_w')))]
        t = app('=', [leaf('w', bv(8)), g.term(bv(8), 0)], BOOL)
    elif cls == 'BoolDeMorgan':
        t = app('not', [app(rng.choice(['and', 'or']), [g.term(BOOL, d) for _ in range(rng.choice([2, 3]))], BOOL)], BOOL)
    elif cls == 'BoolDoubleNegation':
        t = app('not', [app('not', [g.term(BOOL, d)], BOOL)], BOOL)
    elif cls == 'BoolEliminateFalseEquality':
        args = [leaf('false', BOOL), g.term(BOOL, d)]
        rng.shuffle(args)
        t = app('=', args, BOOL)
    elif cls == 'BoolEliminateImplication':
        t = app('=>', [g.term(BOOL, d), g.term(BOOL, d)], BOOL)
    elif cls == 'BoolNegateQuantifier':
        q = rng.choice(['forall', 'exists'])
        name = g.fresh('q')
        vs = rng.choice([INT, BOOL, bv(4)])
        g.scope.append((name, vs))
        body = g.term(BOOL, max(d, 1))
        g.scope.pop()
        t = app('not', [T(None, [syn(q), syn(((name, vs),)), body], BOOL)], BOOL)
    elif cls == 'BoolXOREliminateBinary':
        t = app('xor', [g.term(BOOL, d), g.term(BOOL, d)], BOOL)
    elif cls == 'BoolXORRemoveConstant':
        args = [g.term(BOOL, d), leaf(rng.choice(['true', 'false']), BOOL), g.term(BOOL, 0)]
        rng.shuffle(args)
        t = app('xor', args[:rng.choice([2, 3])] if leaf else args, BOOL)
    elif cls == 'RemoveDatatypeIdentity':
        dts = [x for x in g.dts if any(sels for _, sels in x[1])]
        if not dts:
            return None
        name, cons = rng.choice(dts)
        c, sels = rng.choice([x for x in cons if x[1]])
        k = rng.randrange(len(sels))
        capp = app(c, [g.term(so, d) for _, so in sels], name)
        sapp = app(sels[k][0], [capp], sels[k][1])
        t = app('=', [sapp, g.term(sels[k][1], 0)], BOOL)
    elif cls == 'RemoveDatatype':
        pre = [syn(('declare-datatypes', (('Tree', '0'), ('Forest', '0')),
                    ((('leaf',), ('node', ('children', 'Forest'))), (('nil',), ('cons', ('head', 'Tree'), ('tail', 'Forest'))))))]
        t = app('=', [leaf('leaf', 'Tree'), leaf('leaf', 'Tree')], BOOL)
    elif cls == 'RemoveRecursiveFunction':
        pre = [syn(('define-funs-rec', (('ev', (('n', INT),), BOOL), ('od', (('n', INT),), BOOL)),
                    (('ite', ('=', 'n', '0'), 'true', ('od', ('-', 'n', '1'))), ('ite', ('=', 'n', '0'), 'false', ('ev', ('-', 'n', '1'))))))]
        t = app('ev', [g.term(INT, d)], BOOL)
    elif cls == 'SeqNthUnit':
        e = g.term(INT, d)
        t = app('=', [app('seq.nth', [app('seq.unit', [e], ('Seq', INT)), leaf('0', INT)], INT), g.term(INT, 0)], BOOL)
    elif cls == 'SimplifyQuotedSymbols':
        pre = [syn(('declare-const', '|abc|', INT)), syn(('declare-const', '|a.b_c|', BOOL))]
        t = app('and', [app('>', [leaf('|abc|', INT), g.term(INT, d)], BOOL), leaf('|a.b_c|', BOOL)], BOOL)
    elif cls == 'StringIndexOfNotFound':
        t = app('=', [app('str.indexof', [g.term(STRING, d), g.term(STRING, 0), g.term(INT, 0)], INT), g.term(INT, 0)], BOOL)
    elif cls == 'StringReplaceAll':
        t = app('=', [app('str.replace_all', [g.term(STRING, d), g.term(STRING, 0), g.term(STRING, 0)], STRING), g.term(STRING, 0)], BOOL)
    elif cls == 'StringContainsToConcat':
        if rng.random() < 0.6:
            hay = g.fresh('hay')          # a declared symbol as first operand (the mutator derives two names from it)
            g.cmds.append(syn(('declare-const', hay, STRING)))
            g.vars.append((hay, STRING))
            first = leaf(hay, STRING)
        else:
            first = g.base(STRING) if rng.random() < 0.5 else g.term(STRING, 1)
        t = app('str.contains', [first, g.term(STRING, d)], BOOL)
    elif cls == 'StringSimplifyConstant':
        c = leaf(rng.choice(['"abc123"', '"a""b""c d"', '"\\u{1F600}xyz\\x41"', '"x y ; ( )"', '""""']), STRING)
        t = app('=', [c, g.term(STRING, d)], BOOL)
    elif cls == 'InlineDefinedFuns':
        g.define_fun()
        g.define_fun()
        fs = [f for f in g.funs if f[0].startswith('g')]
        vs = [v for v in g.vars if v[0].startswith('g')]
        if fs:
            f = rng.choice(fs)
            call = app(f[0], [g.term(a, d) for a in f[1]], f[2])
        elif vs:
            v = rng.choice(vs)
            call = leaf(v[0], v[1])
        else:
            return None
        t = app('=', [call, g.term(call.sort, 0)], BOOL)
    elif cls == 'LetSubstitution' and (kind is not None or rng.random() < 0.6):
        # binders that meet: a declared symbol v occurs in a bound term and is bound again (by the same let, by a let or a
        # quantifier inside the body), or the let-bound name itself is bound again inside the body
        vs = rng.choice([INT, BOOL, bv(4)])
        v = g.fresh('cv')
        g.cmds.append(syn(('declare-const', v, vs)))
        g.vars.append((v, vs))
        name = g.fresh('l')

        def mention(x):      # a term of sort vs that mentions x
            if vs == INT:
                return app('+', [leaf(x, vs), leaf('1', INT)], INT)
            if vs == BOOL:
                return app('not', [leaf(x, vs)], BOOL)
            return app('bvadd', [leaf(x, vs), leaf('#b0001', vs)], vs)

        def lit():
            return leaf({INT: '5', BOOL: 'false'}.get(vs, '#b0101'), vs)

        def let(bindings, body, so):
            return T(None, [syn('let'), T(None, [T(None, [syn(n_), t_], None, 'syntax') for n_, t_ in bindings], None, 'syntax'), body], so)
        use = app('=', [leaf(name, vs), leaf(v, vs)], BOOL)
        k = kind or rng.choice(['parallel', 'nested', 'shadow', 'quant', 'plain2', 'swap'])
        if k == 'parallel':
            t = let([(name, mention(v)), (v, lit())], use, BOOL)
        elif k == 'nested':
            t = let([(name, mention(v))], let([(v, lit())], use, BOOL), BOOL)
        elif k == 'swap':
            # two declared symbols, each bound to the other by the same let
            w = g.fresh('cw')
            g.cmds.append(syn(('declare-const', w, vs)))
            g.vars.append((w, vs))
            t = let([(w, leaf(v, vs)), (v, leaf(w, vs))], app('=', [leaf(v, vs), rng.choice([leaf(v, vs), lit()])], BOOL), BOOL)
        elif k == 'shadow':
            t = let([(name, lit())], app('and', [use, let([(name, mention(v))], use, BOOL)], BOOL), BOOL)
        elif k == 'quant':
            q = rng.choice(['forall', 'exists'])
            inner = T(None, [syn(q), syn(((v, vs),)), app('or', [use, app('=', [leaf(v, vs), lit()], BOOL)], BOOL)], BOOL)
            t = let([(name, mention(v))], inner, BOOL)
        else:
            other = g.fresh('l')
            t = let([(name, mention(v)), (other, lit())], app('and', [use, app('=', [leaf(other, vs), leaf(name, vs)], BOOL)], BOOL), BOOL)
    elif cls == 'LetSubstitution' or cls == 'LetElimination':
        vs = rng.choice(g.sorts())
        name = g.fresh('l')
        val = g.term(vs, d)
        g.scope.append((name, vs))
        body = app('=', [leaf(name, vs), g.term(vs, 1)], BOOL)
        g.scope.pop()
        binder = T(None, [T(None, [syn(name), val], None, 'syntax')], None, 'syntax')
        t = T(None, [syn('let'), binder, body], BOOL)
    elif cls == 'EliminateVariable':
        s = rng.choice([INT, BOOL, bv(4)])
        n = g.fresh('ev')
        g.cmds.append(syn(('declare-const', n, s)))
        other = g.term(s, max(d, 1))
        g.vars.append((n, s))
        if s == INT and rng.random() < 0.4:
            # the eliminated symbol occurs nested inside the other side of the equality
            other = app('+', [leaf('1', INT), app('*', [leaf('2', INT), leaf(n, INT)], INT)], INT)
        t = app('and', [app('=', [leaf(n, s), other], BOOL), app('=', [leaf(n, s), g.term(s, 1)], BOOL)], BOOL)
    elif cls == 'FPShortSort':
        e, s = rng.choice([(5, 11), (8, 24), (11, 53), (15, 113), (3, 5)])
        pre = [syn(('declare-const', 'fpv', smtgen.fp(e, s)))]
        t = app('fp.isNaN', [leaf('fpv', smtgen.fp(e, s))], BOOL)
    elif cls == 'MergeWithChildren':
        op = rng.choice(['and', 'or', '+', 'bvand'])
        s = {'and': BOOL, 'or': BOOL, '+': INT, 'bvand': bv(4)}[op]
        inner = app(op, [g.term(s, 0), g.term(s, 0)], s)
        outer = app(op, [g.term(s, 0), inner, g.term(s, 0)], s)
        t = outer if s == BOOL else app('=', [outer, g.term(s, 0)], BOOL)
    elif cls == 'CheckSatAssuming':
        post = [syn(('check-sat-assuming', ('true',)))]
        t = g.term(BOOL, d)
    elif cls == 'RemoveAnnotation':
        t = T(None, [syn('!'), g.term(BOOL, d), syn(':named'), syn(g.fresh('n'))], BOOL)
    elif cls == 'SimplifyLogic':
        t = g.term(BOOL, d)
    elif cls == 'RemoveConstructor':
        t = g.term(BOOL, d)
    else:
        t = g.term(BOOL, max(d, 1))
    logic = rng.choice(['QF_BV', 'QF_NIA', 'QF_UFLIRA', 'ALL', 'QF_S', 'QF_AUFBVFP']) if cls == 'SimplifyLogic' else 'ALL'
    cmds = [syn(('set-logic', logic))] + g.cmds + pre + [T(None, [syn('assert'), t], None, 'syntax')] + (post or [syn(('check-sat',))])
    return smtgen.script_text(cmds), t, cmds


ALL_CLASSES = None


def classes():
    global ALL_CLASSES
    if ALL_CLASSES is None:
        import proposals
        ALL_CLASSES = [c for _, c, _ in proposals.all_mutators()]
    return ALL_CLASSES
