"""C15: every proposed simplification is applicable and lexically closed."""
import json

import common
import gen
import smtgen


def _formals(params):
    return [p_[0] for p_ in params if isinstance(p_, tuple) and p_ and isinstance(p_[0], str)] if isinstance(params, tuple) else []


def plain(name):
    """|x| and x are two spellings of one symbol"""
    return name[1:-1] if len(name) >= 2 and name[0] == '|' and name[-1] == '|' else name


def declared_names(shapes):
    names = []
    for c in shapes:
        if isinstance(c, tuple):
            # comments are leaves of the tree, not part of the command
            c = tuple(x for x in c if not (isinstance(x, str) and x.startswith(';')))
        # formal parameters are bound in the body of the definition
        if isinstance(c, tuple) and len(c) == 5 and c[0] in ('define-fun', 'define-fun-rec'):
            names += _formals(c[2])
        if isinstance(c, tuple) and len(c) == 3 and c[0] == 'define-funs-rec' and isinstance(c[1], tuple):
            for d_ in c[1]:
                if isinstance(d_, tuple) and len(d_) > 1:
                    names += _formals(d_[1])
        # a command of the wrong arity (a partially reduced form such as (define-fun f () Int) without body) declares nothing
        ARITY = {'declare-const': 3, 'declare-fun': 4, 'define-fun': 5, 'define-fun-rec': 5, 'declare-sort': 3, 'define-sort': 4}
        if isinstance(c, tuple) and len(c) >= 2 and c[0] in ARITY and len(c) == ARITY[c[0]] and isinstance(c[1], str):
            names.append(c[1])
        if isinstance(c, tuple) and len(c) == 3 and c[0] == 'declare-datatype' and isinstance(c[1], str):
            names.append(c[1])
        if isinstance(c, tuple) and len(c) == 3 and c[0] == 'define-funs-rec' and isinstance(c[1], tuple):
            names += [d_[0] for d_ in c[1] if isinstance(d_, tuple) and d_ and isinstance(d_[0], str)]
        # constructors and selectors are declared symbols too
        def ctors_of(dt):
            if isinstance(dt, tuple) and len(dt) == 3 and dt[0] == 'par' and isinstance(dt[2], tuple):
                return list(dt[2])
            return list(dt) if isinstance(dt, tuple) else []
        cons = []
        if isinstance(c, tuple) and len(c) == 3 and c[0] == 'declare-datatype':
            cons = ctors_of(c[2])
        if isinstance(c, tuple) and len(c) == 3 and c[0] == 'declare-datatypes' and isinstance(c[2], tuple):
            cons = [k for dt in c[2] for k in ctors_of(dt)]
        for k in cons:
            if isinstance(k, tuple) and k and isinstance(k[0], str):
                names.append(k[0])
                names += [sel[0] for sel in k[1:] if isinstance(sel, tuple) and sel and isinstance(sel[0], str)]
    return names


def leaves(e, acc):
    if isinstance(e, str):
        acc.append(e)
    else:
        for x in e:
            leaves(x, acc)
    return acc


def check_proposal(impl, P, exprs, in_shapes, in_ids, p):
    """Returns a list of problems for proposal p on input exprs."""
    from ddsmt.nodes import Node
    from ddsmt.mutator_utils import Simplification
    problems = []
    s = p['simp']
    if not isinstance(s, Simplification):
        return ['the proposal is not a Simplification']
    for k, v in s.substs.items():
        if isinstance(k, int):
            if k not in in_ids:
                problems.append(f'identity key {k} designates no node of the input')
        elif isinstance(k, Node):
            pass
        else:
            problems.append(f'key of type {type(k).__name__}')
        if v is not None and not isinstance(v, Node):
            problems.append(f'replacement value is a {type(v).__name__}, not a node')
    for v in s.fresh_vars:
        if not isinstance(v, Node):
            problems.append(f'declaration is a {type(v).__name__}, not a node')
    if problems:
        return problems
    try:
        with common.time_limit(10):
            res = P.apply(exprs, s)
    except Exception as e:  # noqa
        return [f'apply_simp failed: {type(e).__name__}: {e}']
    if res is None or not isinstance(res, list) or not all(isinstance(x, Node) for x in res):
        return [f'result of apply_simp is not a list of nodes: {type(res).__name__}']
    try:
        text = impl.render(res, 'default')
        back = impl.parse_shapes(text)
    except Exception as e:  # noqa
        return [f'rendering/re-parsing failed: {type(e).__name__}: {e}']
    mem = impl.to_shapes(res)
    if back != mem:
        # find the offending leaf
        bad = [x for x in leaves(tuple(mem), []) if impl.parse_shapes(x) != [x]]
        problems.append(f'the tree in memory differs from what a reader parses from the written file (leaves that are not single tokens: {bad[:3]})')
    # declarations: fresh, and before first use
    if s.fresh_vars and res is not exprs:
        # a declared, defined or bound name -- or any other token of the input (a :named label, a match pattern, ...)
        # (symbols only: no keywords, literals, numerals, comments, nothing inside set-info/set-option/set-logic/echo -- a
        # declaration of such a name captures nothing)
        def symbol_like(x):
            return not (x[:1] in ';:"#' or x[:1].isdigit() or x in ('(', ')'))
        already = set(plain(n_) for n_ in declared_names(in_shapes)) | set(
            plain(x) for sh_ in in_shapes if not (isinstance(sh_, tuple) and sh_ and sh_[0] in ('set-info', 'set-option', 'set-logic', 'echo'))
            for x in leaves(sh_, []) if symbol_like(x))
        newdecl = [impl.to_shape(v) for v in s.fresh_vars]
        dn = [d_[1] for d_ in newdecl if isinstance(d_, tuple) and len(d_) >= 2 and isinstance(d_[1], str)]
        for name in sorted(set(n_ for n_ in dn if dn.count(n_) > 1)):
            problems.append(f'declares {name!r} {dn.count(name)} times')
        for dshape in newdecl:
            if isinstance(dshape, tuple) and len(dshape) >= 2 and isinstance(dshape[1], str):
                name = dshape[1]
                if plain(name) in already:
                    problems.append(f'declares {name!r}, which is already declared in the input')
                pos = next((i for i, c in enumerate(mem) if c == dshape), None)
                first_use = next((i for i, c in enumerate(mem) if c != dshape and name in leaves(c, [])), None)
                if pos is None:
                    problems.append(f'declaration of {name!r} is not in the result')
                elif first_use is not None and first_use < pos:
                    problems.append(f'{name!r} is used in command {first_use} but declared only in command {pos}')
    return problems


def run(ctx):
    ctx.rule = ('well-sorted scripts over all supported theories from the typed generator (validated) and their partially reduced forms '
                '(random proposals applied up to 3 times), inputs with set-info/set-logic after the header, string literals with escapes, '
                'quoted symbols; every proposal of every mutator on every node is applied, rendered and re-parsed; non-trivial = '
                'proposal changes the input; distinct = distinct (input, node, mutator, result)')
    ctx.proof = common.prove('C15')
    import impl
    import proposals as P
    rng = ctx.rng
    ninputs = 120 if ctx.thorough else 22
    total = 0
    per_mut = {}
    extra_inputs = [
        # a backslash is an ordinary character of a string literal (only the doubled quote is special): shortening must not
        # leave a literal that ends in backslash + ONE quote
        '(set-logic QF_S)\n(declare-const s String)\n(assert (= s "dir\\"""))\n(assert (str.contains s "a\\""b\\"""))\n(check-sat)\n',
        '(set-logic QF_S)\n(declare-const s String)\n(assert (= s "\\"""))\n(assert (= s "x\\\\"))\n(check-sat)\n',
        # further ways of putting a symbol into a script (F68): a :named label, a match pattern, a lambda binder, define-const, a
        # formal behind a comment
        '(set-logic ALL)\n(declare-const v (_ BitVec 8))\n(assert (! (= v #x00) :named _v))\n(check-sat)\n',
        '(set-logic ALL)\n(declare-const v (_ BitVec 8))\n(define-fun f ((; the formal\n _v Int)) Int _v)\n(assert (= v #x01))\n(check-sat)\n',
        '(set-logic ALL)\n(declare-const v (_ BitVec 8))\n(define-const _v Int 1)\n(assert (= v #x01))\n(check-sat)\n',
        '(set-logic ALL)\n(declare-const v (_ BitVec 8))\n(assert ((lambda ((_v (_ BitVec 8))) _v) v))\n(check-sat)\n',
        # one symbol spelled with and without bars; a formal parameter with the derived name; a declaration with a comment inside
        '(set-logic QF_BV)\n(declare-const |_v| (_ BitVec 8))\n(declare-const v (_ BitVec 8))\n(assert (= (bvadd v |_v|) #x01))\n(check-sat)\n',
        '(set-logic ALL)\n(declare-const |s_prefix| String)\n(declare-const s String)\n(assert (str.contains s "a"))\n(assert (= s |s_prefix|))\n(check-sat)\n',
        '(set-logic QF_BV)\n(declare-const v (_ BitVec 8))\n(define-fun f ((_v (_ BitVec 8))) (_ BitVec 8) (bvadd _v v))\n(assert (= (f v) #x01))\n(check-sat)\n',
        '(set-logic QF_BV)\n(declare-const v (_ BitVec 8))\n(declare-const _v ; the reduced one\n (_ BitVec 8))\n(assert (= (bvadd v _v) #x01))\n(check-sat)\n',
        '(set-logic QF_S)\n(declare-const s String)\n(assert (str.contains s """x y"))\n(assert (= s "a\\u{1F600}b ""q"" ; ( "))\n(check-sat)\n(set-info :status sat)\n',
        '(set-logic QF_BV)\n(declare-const |a b| (_ BitVec 8))\n(declare-const v (_ BitVec 8))\n(assert (= (bvadd |a b| v) ((_ zero_extend 4) #xA)))\n(set-info :status sat)\n(check-sat)\n(set-info :late x)\n(assert (= v #x01))\n(check-sat)\n',
        '(set-logic LIA)\n(declare-const x Int)\n(declare-const _x Int)\n(assert (> (+ x _x 10) 100))\n(check-sat)\n',
        '(set-logic ALL)\n(declare-const a String)\n(declare-const a_prefix String)\n(assert (str.contains (str.++ a a_prefix) "x"))\n(assert (str.contains a "y"))\n(check-sat)\n',
        '(set-logic QF_BV)\n(declare-const v (_ BitVec 8))\n(declare-const _v (_ BitVec 8))\n(declare-const __v (_ BitVec 4))\n(assert (= (bvadd v _v) ((_ zero_extend 4) __v)))\n(check-sat)\n',
        '(set-logic ALL)\n(declare-const s String)\n(define-fun s_prefix () String "p")\n(declare-const t String)\n(assert (str.contains s t))\n(assert (str.contains t s_prefix))\n(check-sat)\n',
    ]
    extra_inputs.append('(set-logic ALL)\n(declare-const |the haystack| String)\n(declare-const |s(0)| String)\n(declare-const |b v| (_ BitVec 8))\n'
                        '(assert (str.contains |the haystack| "x"))\n(assert (str.contains |s(0)| |the haystack|))\n(assert (= |b v| (bvadd |b v| #x01)))\n(check-sat)\n')
    # fresh names that coincide with a declared FUNCTION (F33), a declared sort, a constructor or a selector
    extra_inputs.append('(set-logic ALL)\n(declare-fun _v ((_ BitVec 1)) Bool)\n(declare-const v (_ BitVec 8))\n(declare-fun s_prefix (Int) String)\n(declare-const s String)\n'
                        '(assert (_v ((_ extract 0 0) v)))\n(assert (str.contains s (s_prefix 1)))\n(check-sat)\n')
    # a comment or a string literal where the symbol is expected; names that exist as constructor / selector (F47, F48)
    extra_inputs.append('(set-logic ALL)\n(declare-const ; the counter\n x Int)\n(declare-fun ; c\n f (Int) Int)\n(declare-const "ab" Int)\n(assert (> x (f 0)))\n(check-sat)\n')
    extra_inputs.append('(set-logic ALL)\n(declare-datatypes ((T 0)) (((_v) (mk (s_suffix Int)))))\n(declare-const v (_ BitVec 8))\n(declare-const s String)\n'
                        '(declare-const ab_c Int)\n(assert (= v (bvadd v #x01)))\n(assert (str.contains s "ab"))\n(assert (> ab_c (s_suffix _v)))\n(check-sat)\n')
    # names that exist as recursive functions or as constructors/selectors of a parametric datatype; a string literal as declared name;
    # a comment as operand (F54)
    extra_inputs.append('(set-logic ALL)\n(define-fun-rec _x ((n Int)) Int n)\n(define-funs-rec ((s_prefix ((n Int)) String) (_y ((m Int)) Int)) ("a" m))\n'
                        '(declare-datatypes ((P 1)) ((par (X) ((_z (s_suffix X))))))\n(declare-datatype Q (par (Y) ((_w (fw Y)))))\n'
                        '(declare-const x (_ BitVec 8))\n(declare-const y (_ BitVec 8))\n(declare-const z (_ BitVec 4))\n(declare-const w (_ BitVec 4))\n(declare-const s String)\n'
                        '(assert (= x (bvadd x y)))\n(assert (= z (bvadd z w)))\n(assert (str.contains s "b"))\n(check-sat)\n')
    extra_inputs.append('(set-logic ALL)\n(declare-const "x" (_ BitVec 8))\n(declare-const t String)\n(assert (str.contains ; c\n t "q"))\n(assert (= "x" #x00))\n(check-sat)\n')
    import instances
    targeted = []
    for cls in instances.classes():
        for _ in range(6 if ctx.thorough else 2):
            r = instances.make(rng, cls, exotic=rng.choice([0.0, 0.5]))      # half of them with quoted symbols that need their bars
            if r is not None:
                targeted.append(r[0])
        if cls in ('IntroduceFreshVariable', 'BVReduceBW', 'StringContainsToConcat', 'SimplifySymbolNames', 'SimplifyQuotedSymbols', 'BVMergeReducedBW'):
            # mutators that derive new symbols from existing ones: all symbols quoted and in need of their bars
            r = instances.make(rng, cls, exotic=1.0)
            if r is not None:
                targeted.append(r[0])
    for k in range(ninputs + len(targeted)):
        if k < len(extra_inputs):
            text = extra_inputs[k]
        elif k >= ninputs:
            text = targeted[k - ninputs]
        else:
            g, cmds = smtgen.gen_script(rng, nasserts=rng.choice([2, 3]), depth=rng.choice([2, 3]), exotic=rng.choice([0.0, 0.0, 0.4]))
            text = smtgen.script_text(cmds)
            if rng.random() < 0.3:
                text += '(set-info :status sat)\n(assert true)\n(check-sat)\n'
        exprs = impl.parse(text)
        for step in range(6 if k < len(extra_inputs) else rng.choice([1, 1, 2, 3, 4])):
            in_shapes = impl.to_shapes(exprs)
            in_ids = set(impl.ids_of(exprs))
            props = list(P.enumerate_proposals(exprs))
            nxt = []
            for p in props:
                if 'error' in p:
                    ctx.count('mutator raised (guarded)')
                    continue
                total += 1
                per_mut[p['cls']] = per_mut.get(p['cls'], 0) + 1
                problems = check_proposal(impl, P, exprs, in_shapes, in_ids, p)
                try:
                    res = P.apply(exprs, p['simp'])
                    rs = impl.to_shapes(res) if isinstance(res, list) else None
                except Exception:  # noqa
                    rs = None
                ctx.case([in_shapes, p['idx'], p['cls'], rs], rs != in_shapes,
                         sample=dict(mutator=p['cls'], node=str(p['node'])[:80], result_diff=True) if rs != in_shapes and len(ctx.samples) < 5 and total % 37 == 0 else None)
                for msg in problems:
                    ctx.violation('impl-violation', input=impl.render(exprs, 'default'), mutator=p['cls'], node=str(p['node'])[:300], kind=p['kind'] if False else None,
                                  observed=msg, expected='applicable, renders, re-parses to the tree in memory; fresh declarations before first use',
                                  how_to_replay='./check C15 --replay <file>') if False else \
                        ctx.violation('impl-violation', input=impl.render(exprs, 'default'), mutator=p['cls'], node=str(p['node'])[:300],
                                      observed=msg, expected='applicable, renders, re-parses to the tree in memory; fresh declarations before first use',
                                      how_to_replay='./check C15 --replay <file>')
                if rs is not None and rs != in_shapes and not problems:
                    nxt.append(p)
            if not nxt:
                break
            # move to a partially reduced form; histories of declaration-introducing simplifications are what makes
            # fresh names collide, so prefer those
            decl = [q for q in nxt if q['simp'].fresh_vars]
            p = rng.choice(decl) if decl and rng.random() < 0.7 else rng.choice(nxt)
            try:
                exprs = impl.nodes.reduplicate(P.apply(exprs, p['simp']))
            except Exception:  # noqa
                break
    # the grouped simplifications of the ddmin strategy (first simplification of every node of a subset, merged) are
    # proposals too: same oracle
    from ddsmt import strategy_ddmin
    grouped_inputs = extra_inputs + ['(set-logic QF_S)\n(declare-const s String)\n(assert (str.contains s "ab"))\n(assert (str.contains s "cd"))\n(check-sat)\n',
                                     '(set-logic ALL)\n(declare-const v (_ BitVec 8))\n(declare-const w (_ BitVec 8))\n(assert (= (bvadd v w) (bvmul v w)))\n(assert (= (bvadd v w) #x01))\n(check-sat)\n']
    ngrouped = 0
    for text in grouped_inputs:
        exprs = impl.parse(text)
        in_shapes = impl.to_shapes(exprs)
        in_ids = set(impl.ids_of(exprs))
        impl.smtlib.collect_information(exprs)
        for _, cname, m in P.all_mutators():
            if not (hasattr(m, 'mutations') or hasattr(m, 'global_mutations')):
                continue
            try:
                n_ = strategy_ddmin.TaskGenerator(exprs, None, m).num_filtered
            except Exception:  # noqa
                continue
            for gran in sorted(set(g for g in (n_, n_ // 2, 2) if g > 1), reverse=True):
                for task in strategy_ddmin.TaskGenerator(exprs, gran, m):
                    for simp in task.simplifications[:2]:
                        ngrouped += 1
                        for msg in check_proposal(impl, P, exprs, in_shapes, in_ids, dict(simp=simp)):
                            ctx.violation('impl-violation', input=text, mutator=cname + ' (grouped by ddmin, granularity %d)' % gran, node='(subset %d)' % task.id,
                                          observed=msg, expected='applicable, lexically closed, declarations fresh, unique and before their first use')
    ctx.count('grouped ddmin simplifications checked', ngrouped)
    ctx.count('proposals checked', total)
    # TIE-C for Model/CoreRw.v (structural mutators, LetElimination, candidate names of SimplifySymbolNames): the theorems of
    # Props/CoreRw.v (closure, size/disorder measure, names) speak about these models
    import corecorr
    ok, log = common.build_driver()
    if not ok:
        raise common.BuildError(log[-3000:])
    ctexts = list(extra_inputs) + targeted[:(len(targeted) if ctx.thorough else 40)]
    for _ in range(40 if ctx.thorough else 8):
        g, cmds = smtgen.gen_script(rng, nasserts=rng.choice([2, 3]), depth=rng.choice([2, 3]))
        ctexts.append(smtgen.script_text(cmds))
    corecorr.run(ctx, impl, common.Model(), rng, ctexts)
    # ... and for Model/SmtlibRw.v (6 smtlib/boolean mutators, dispatch 100-106) and Model/ConstRw.v (9 bv/arithmetic/strings
    # mutators, dispatch 110-118), each with its own targeted and malformed corpus
    import morecorr1
    import morecorr2
    if ctx.thorough:
        morecorr1.run(ctx, impl, common.Model(), rng, ctexts)
    else:
        morecorr1.run(ctx, impl, common.Model(), rng, ctexts[:12], nlogic=80, nquoted=80, nfuzz=150)
    morecorr2.run(ctx, impl, common.Model(), rng, ctexts if ctx.thorough else ctexts[:12])
    # ... Model/OracleRw.v (7 mutators that consult the sort oracle, default constants, variables, datatype tables; dispatch 120-127)
    # and Model/GlobalRw.v (the 7 mutators with global simplifications or deletions; dispatch 130-136): all 53 mutators have a model
    import morecorr3
    import morecorr4
    morecorr3.run(ctx, impl, common.Model(), rng, ctexts if ctx.thorough else ctexts[:10])
    morecorr4.run(ctx, impl, common.Model(), rng, ctexts if ctx.thorough else ctexts[:10])
    # ... and Model/Declared.v (dispatch 140-142): the tables behind is_declared_symbol, i.e. the freshness oracle of the models above
    import declcorr
    declcorr.run(ctx, impl, common.Model(), rng, ctexts if ctx.thorough else ctexts[:12], nfuzz=400 if ctx.thorough else 80)
    # TIE-H: the same in real runs -- the tables the freshness checks consult must describe the input a proposal is made for,
    # also in the middle of a ddmin round after an acceptance (sequential and parallel) and between hierarchical sweeps.  The
    # command accepts every candidate that keeps one symbol, so declaring steps are accepted and followed by further ones.
    import e2e
    hist = [
        # four str.contains atoms, three of them on one variable; at least one atom must stay, so the subset of all of them is
        # rejected and smaller subsets follow in the same round: the same derived names are due twice
        ('(set-logic ALL)\n(declare-const z String)\n(declare-const w String)\n(assert (str.contains z "ab"))\n(assert (str.contains w "k"))\n'
         '(assert (str.contains z "cd"))\n(assert (str.contains z "ef"))\n(check-sat)\n', ['--strings', '--disable-all', '--str-contains-to-concat'], 'str.contains'),
        # bit-width reductions of two variables, one operator must stay
        ('(set-logic ALL)\n(declare-const u (_ BitVec 8))\n(declare-const v (_ BitVec 8))\n(assert (= (bvadd u v) (bvmul v u)))\n'
         '(assert (bvult u (bvnot v)))\n(assert (bvult v (bvneg u)))\n(check-sat)\n', ['--disable-all', '--bv-reduce-bitwidth', '--introduce-fresh-variables'], 'bvult'),
        ('(set-logic ALL)\n(declare-const a Int)\n(declare-const b Int)\n(assert (> (+ a b 1) (* a b)))\n(assert (< (- a b) (+ b 2)))\n(assert (< (* a 2) (+ b 3)))\n(check-sat)\n',
         ['--disable-all', '--introduce-fresh-variables', '--eliminate-variables'], '<'),
    ]
    jobs = []
    for k, (text, xopts, sym) in enumerate(hist):
        for strat, jn in ((('ddmin', 1), ('ddmin', 3), ('hierarchical', 2), ('hybrid', 1)) if ctx.thorough else (('ddmin', 1), ('hybrid', 2))):
            jobs.append(dict(text=text, opts=['--strategy', strat, '-j', str(jn)] + xopts, cmd=[e2e.TOKPRED, 'all', sym], env={}, timeout=240))
    for j, r in zip(jobs, e2e.run_many(jobs)):
        nchk = len(r.ev('check'))
        ctx.case(['run', j['text'], j['opts']], nchk > 10)
        ctx.count('candidates of real runs inspected for repeated declarations', nchk)
        for msg in e2e.analyse(r)['C15']:
            ctx.violation('impl-violation', input=j['text'], options=j['opts'], command=j['cmd'], observed=msg,
                          expected='declarations a candidate introduces declare symbols that the input it was made for does not declare')
    ctx.extra['proposals_per_mutator'] = dict(sorted(per_mut.items()))
    ctx.extra['mutators_never_exercised'] = sorted(set(c for _, c, _ in P.all_mutators()) - set(per_mut))
    ctx.assumptions += ['inputs are well-sorted scripts of the typed generator and their partially reduced forms']


def replay(d):
    import impl
    import proposals as P
    exprs = impl.parse(d['input'])
    in_shapes = impl.to_shapes(exprs)
    in_ids = set(impl.ids_of(exprs))
    bad = 0
    for p in P.enumerate_proposals(exprs, only=[d['mutator']]):
        if 'error' in p:
            continue
        pr = check_proposal(impl, P, exprs, in_shapes, in_ids, p)
        if pr:
            bad += 1
            print(p['cls'], str(p['node'])[:100], pr)
    return 1 if bad else 0
