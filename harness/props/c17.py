"""C17: rewrites documented as identities preserve sort and value."""
import json
import os
import subprocess
import tempfile

import common
import gen
import smtgen
from common import w_shape, w_shapes, w_str, r_shape

IDENTITY = ['BVNormalizeConstants', 'BVEvalExtend', 'BVExtractConstants', 'BVExtractZeroExtend', 'BvMergeExtend', 'BVMergeReducedBW',
            'BoolDoubleNegation', 'BoolDeMorgan', 'BoolEliminateFalseEquality', 'BoolXOREliminateBinary', 'BoolNegateQuantifier',
            'BoolEliminateImplication', 'ArithmeticNegateRelation', 'BVDoubleNegation', 'BVReflexiveNand', 'BVIteToBVComp', 'BVElimBVComp',
            'InlineDefinedFuns', 'LetSubstitution', 'RemoveDatatypeIdentity', 'FPShortSort']
BINARY_ONLY = {'BoolEliminateFalseEquality': 3, 'BoolEliminateImplication': 3, 'ArithmeticNegateRelation': None, 'BVElimBVComp': 3,
               'BoolXOREliminateBinary': 3}

EXTRA = [
    # formal parameter names equal to names used in the actual arguments (simultaneous substitution)
    ('InlineDefinedFuns', '(set-logic ALL)\n(declare-const p Int)\n(declare-const q Int)\n(define-fun g ((p Int) (q Int)) Int (- p q))\n(assert (> (g q p) (g (+ p q) q)))\n(check-sat)\n'),
    ('InlineDefinedFuns', '(set-logic ALL)\n(declare-const a (_ BitVec 4))\n(define-fun h ((a (_ BitVec 4)) (b (_ BitVec 4))) (_ BitVec 4) (bvsub a b))\n(assert (= (h (bvnot a) a) a))\n(check-sat)\n'),
    ('LetSubstitution', '(set-logic ALL)\n(declare-const x Int)\n(declare-const y Int)\n(assert (let ((z (+ x y))) (> (* z z) (- z x))))\n(check-sat)\n'),
    ('BVExtractConstants', '(set-logic ALL)\n(declare-const v (_ BitVec 4))\n(assert (= ((_ extract 3 0) #xAB) v))\n(assert (= ((_ extract 7 4) #xAB) v))\n(assert (= ((_ extract 5 2) (_ bv171 8)) v))\n(check-sat)\n'),
    ('BVEvalExtend', '(set-logic ALL)\n(declare-const v (_ BitVec 3))\n(assert (= ((_ sign_extend 2) #b0) v))\n(assert (= ((_ sign_extend 2) #b1) v))\n(assert (= ((_ sign_extend 2) (_ bv0 1)) v))\n(assert (= ((_ zero_extend 2) #b1) v))\n(check-sat)\n'),
]
# name capture: the body binds a symbol that is free in the actual argument (F19, repaired: the call is left alone)
# and a formal parameter bound again in the body (REBOUND)
# a quantified variable elsewhere in the input has the name of a declared constant but another width: the width is looked up by
# bare name (known finding F52)
SHADOW = ('BVExtractZeroExtend', '(set-logic ALL)\n(declare-const x (_ BitVec 8))\n(assert (= ((_ extract 5 2) ((_ zero_extend 4) x)) #b0000))\n'
          '(assert (forall ((x (_ BitVec 4))) (= x x)))\n(check-sat)\n')
# the use site lies under a binder: a symbol of the body is bound there (SCOPE1), or the "function" is a bound variable (SCOPE2)
SCOPE1 = ('InlineDefinedFuns', '(set-logic ALL)\n(declare-const y Int)\n(define-fun f () Int y)\n(assert (= y 1))\n(assert (let ((y 7)) (= f 1)))\n(check-sat)\n')
SCOPE2 = ('InlineDefinedFuns', '(set-logic ALL)\n(define-fun c () Int 3)\n(assert (let ((c 5)) (= c 5)))\n(check-sat)\n')
# |x| and x are one symbol: the formal parameter |x| is not substituted for x in the body
QUOTED = ('InlineDefinedFuns', '(set-logic ALL)\n(declare-const x Int)\n(define-fun f ((|x| Int)) Int (+ x 1))\n(assert (= x 0))\n(assert (= (f 5) 6))\n(check-sat)\n')
# comments are leaves of ddSMT's tree: inside a term they must not be taken for operands
COMMENT1 = ('BoolDoubleNegation', '(set-logic ALL)\n(declare-const a Bool)\n(assert (not (not ; the operand\n a)))\n(check-sat)\n')
COMMENT2 = ('RemoveDatatypeIdentity', '(set-logic ALL)\n(declare-datatype A ((C ; first\n (s1 Int) (s2 Int))))\n(declare-const a Int)\n(declare-const b Int)\n'
            '(assert (= (s1 (C a b)) 0))\n(check-sat)\n')
COMMENT3 = ('BVDoubleNegation', '(set-logic ALL)\n(declare-const v (_ BitVec 4))\n(assert (= v (bvnot (bvnot ; c\n v))))\n(check-sat)\n')
REBOUND = ('InlineDefinedFuns', '(set-logic ALL)\n(define-fun f ((x Int)) Bool (forall ((x Int)) (>= (* x x) 0)))\n(assert (f (- 5)))\n(check-sat)\n')
CAPTURE = ('InlineDefinedFuns', '(set-logic ALL)\n(declare-const y Int)\n(define-fun g ((p Int)) Bool (exists ((y Int)) (> y p)))\n(assert (g y))\n(check-sat)\n')


def decls_of(shapes):
    return [s for s in shapes if isinstance(s, tuple) and s and s[0] in ('declare-const', 'declare-fun', 'define-fun', 'declare-datatype',
                                                                            'declare-datatypes', 'declare-sort', 'define-funs-rec', 'define-sort')]


def z3_batch(queries, timeout=20):
    """queries: list of (decl shapes, scope [(name, sort)], t, t') -> list of 'unsat' | 'sat' | other"""
    res = []
    d = tempfile.mkdtemp(prefix='verif-c17-')
    try:
        for k, (decls, scope, a, b) in enumerate(queries):
            lines = ['(set-option :timeout %d)' % (timeout * 1000)]
            lines += [smtgen.render_shape(s) for s in decls]
            # symbols bound around the term (let / quantifier / parameters) become fresh constants
            declared = set(s[1] for s in decls if len(s) > 1 and isinstance(s[1], str))
            for s_ in decls:
                if s_[0] in ('declare-datatype', 'declare-datatypes'):
                    declared |= set(x for x in gen.flat(s_) if isinstance(x, str))
            ren = {}
            for n, so in scope:
                if n in declared and n not in ren:
                    # a bound symbol that shadows a declared one: inside the term (and inside the replacement, once it stands
                    # there) the name means the bound symbol, inside the definitions it means the declared one
                    ren[n] = '|' + n.strip('|') + '!bound|'
                    lines.append(f'(declare-const {ren[n]} {smtgen.render_shape(so)})')
                elif n not in declared:
                    lines.append(f'(declare-const {n} {smtgen.render_shape(so)})')
                    declared.add(n)
            if ren:
                def rn(sh):
                    return ren.get(sh, sh) if isinstance(sh, str) else tuple(rn(x) for x in sh)
                a, b = rn(a), rn(b)
            lines.append(f'(assert (not (= {smtgen.render_shape(a)} {smtgen.render_shape(b)})))')
            lines.append('(check-sat)')
            fn = os.path.join(d, f'q{k}.smt2')
            open(fn, 'w').write('\n'.join(lines) + '\n')
        import concurrent.futures

        def one(k):
            try:
                p = subprocess.run(['z3', os.path.join(d, f'q{k}.smt2')], stdout=subprocess.PIPE, stderr=subprocess.STDOUT, text=True, timeout=timeout + 10)
                return p.stdout.strip()
            except subprocess.TimeoutExpired:
                return 'timeout'
        with concurrent.futures.ThreadPoolExecutor(common.NCPU) as ex:
            res = list(ex.map(one, range(len(queries))))
    finally:
        import shutil
        shutil.rmtree(d, ignore_errors=True)
    return res


def scope_of(exprs, node, impl):
    """binders (let / forall / exists / define-fun parameters) enclosing node: [(name, sort shape or None)]"""
    from ddsmt import smtlib
    scope = []

    def go(n, acc):
        if n.id == node.id:
            scope.extend(acc)
            return True
        if n.is_leaf():
            return False
        extra = []
        if n.has_ident() and n.get_ident() in ('forall', 'exists') and len(n) > 2 and not n[1].is_leaf():
            extra = [(v[0].data, impl.to_shape(v[1])) for v in n[1] if not v.is_leaf() and len(v) == 2]
        if n.has_ident() and n.get_ident() == 'let' and len(n) > 2 and not n[1].is_leaf():
            for v in n[1]:
                if not v.is_leaf() and len(v) == 2:
                    so = smtlib.get_sort(v[1])
                    extra.append((v[0].data, None if so is None else impl.to_shape(so)))
        if n.has_ident() and n.get_ident() == 'define-fun' and len(n) == 5 and not n[2].is_leaf():
            extra = [(v[0].data, impl.to_shape(v[1])) for v in n[2] if not v.is_leaf() and len(v) == 2]
        for i, c in enumerate(n.data):
            # bindings of a let are outside the scope of its own variables
            inner = acc + extra if not (n.has_ident() and n.get_ident() == 'let' and i == 1) else acc
            if go(c, inner):
                return True
        return False
    for e in exprs:
        if go(e, []):
            break
    return scope


def run(ctx):
    ctx.rule = ('for every mutator of the property\'s list, targeted well-sorted instances (random operand terms, widths 1..8, all '
                'index values, constant notations #b/#x/(_ bvN w), formals named like symbols of the actuals); every (term, replacement) '
                'pair produced by the real mutations() is (1) re-typed by the extracted typing function and (2) checked for equivalence; '
                'non-trivial = replacement differs from the term; distinct = distinct (term, replacement)')
    ctx.proof = common.prove('C17')
    ok, log = common.build_driver()
    if not ok:
        raise common.BuildError(log[-3000:])
    import impl
    import proposals as P
    import instances
    from ddsmt import smtlib
    model = common.Model()
    rng = ctx.rng
    per = 40 if ctx.thorough else 7
    texts = list(EXTRA) + [CAPTURE, REBOUND, SHADOW, SCOPE1, SCOPE2, QUOTED, COMMENT1, COMMENT2, COMMENT3]
    for cls in IDENTITY:
        for _ in range(per):
            r = instances.make(rng, cls)
            if r is not None:
                texts.append((cls, r[0]))
    # every way in which binders can meet in a let, every run
    for kind in ('parallel', 'nested', 'shadow', 'quant', 'plain2', 'swap'):
        for _ in range(3 if ctx.thorough else 1):
            r = instances.make(rng, 'LetSubstitution', kind=kind)
            if r is not None:
                texts.append(('LetSubstitution', r[0]))
    queries, qmeta, tcalls = [], [], []
    for cls, text in texts:
        exprs = impl.parse(text)
        shapes = impl.to_shapes(exprs)
        decls = decls_of(shapes)
        for p in P.enumerate_proposals(exprs, only=[cls]):
            if 'error' in p:
                ctx.violation('impl-violation', input=text, mutator=cls, term=str(p['node'])[:300], observed=f'mutator failed: {p["error"]}',
                              expected='a proposal (or none)')
                continue
            node = p['node']
            if p['kind'] != 'local':
                continue
            if cls in BINARY_ONLY and BINARY_ONLY[cls] is not None and len(node) != BINARY_ONLY[cls]:
                continue            # only the documented binary form is claimed to be an identity
            if cls == 'ArithmeticNegateRelation' and len(node[1]) != 3:
                continue
            v = p['simp'].substs.get(node.id)
            if v is None:
                continue
            a, b = impl.to_shape(node), impl.to_shape(v)
            ctx.case([cls, a, b], a != b, sample=dict(mutator=cls, term=smtgen.render_shape(a)[:120], replacement=smtgen.render_shape(b)[:120])
                     if len(ctx.samples) < 6 and rng.random() < 0.05 else None)
            ctx.count(cls)
            if cls == 'FPShortSort':
                table = {('_', 'FloatingPoint', '5', '11'): 'Float16', ('_', 'FloatingPoint', '8', '24'): 'Float32',
                         ('_', 'FloatingPoint', '11', '53'): 'Float64', ('_', 'FloatingPoint', '15', '113'): 'Float128'}
                if table.get(a) != b:
                    ctx.violation('impl-violation', input=text, mutator=cls, term=smtgen.render_shape(a), observed=f'replaced by {b}',
                                  expected=f'{table.get(a)} (the standard abbreviation)')
                continue
            if cls == 'BVMergeReducedBW':
                # the replaced node is a define-fun command: compare the bodies
                if not (isinstance(a, tuple) and isinstance(b, tuple) and len(a) == 5 and len(b) == 5 and a[:4] == b[:4]):
                    ctx.violation('impl-violation', input=text, mutator=cls, term=smtgen.render_shape(a), observed=f'replaced by {smtgen.render_shape(b)}',
                                  expected='the same definition header')
                    continue
                dcl = [s for s in decls if s != a]
                queries.append((dcl, [], a[4], b[4]))
                qmeta.append((cls, text, a[4], b[4], False))
                continue
            scope = scope_of(exprs, node, impl)
            if any(so is None for _, so in scope):
                continue
            capture = {SHADOW: 'F52-width-lookup-ignores-scopes',
                       SCOPE1: 'F55-inlining-ignores-binders-at-the-use-site', SCOPE2: 'F55-inlining-ignores-binders-at-the-use-site',
                       QUOTED: 'F56-quoted-and-simple-spelling-are-different-names'}.get((cls, text))
            queries.append((decls, scope, a, b))
            qmeta.append((cls, text, a, b, capture))
            if not any(isinstance(s, tuple) and s and s[0] in ('declare-datatypes', 'define-funs-rec') for s in shapes):
                for t in (a, b):
                    tcalls.append((50, [w_shapes(shapes), [[w_str(n), w_shape(so)] for n, so in scope], w_shape(t)]))
    # (0) TIE-C: the rewrite models of Model/Rewrites.v against filter + mutations of the implementation, on every node
    RW = {'BoolDoubleNegation': 60, 'BoolDeMorgan': 61, 'BoolEliminateFalseEquality': 62, 'BoolEliminateImplication': 63,
          'BoolXOREliminateBinary': 64, 'ArithmeticNegateRelation': 65, 'BVNormalizeConstants': 66, 'BVDoubleNegation': 67,
          'BVElimBVComp': 68, 'BVEvalExtend': 69, 'BVExtractConstants': 70, 'BVExtractZeroExtend': 71, 'BVIteToBVComp': 72,
          'BVReflexiveNand': 73, 'BvMergeExtend': 74}
    from ddsmt import mutators_boolean, mutators_arithmetic, mutators_bv
    objs = {}
    for mod in (mutators_boolean, mutators_arithmetic, mutators_bv):
        for c in RW:
            if hasattr(mod, c):
                objs[c] = getattr(mod, c)()
    rcalls, rmeta = [], []
    malformed = ['(assert (= #b #x))', '(assert (bvnot #b))', '(assert ((_ zero_extend 2) #x))', '(assert ((_ extract 0 0) #b))', '(assert (not))', '(assert (not (not)))', '(assert (bvneg))', '(assert (bvnot (bvnot)))', '(assert (= #b1 (bvcomp)))',
                 '(assert ((_ zero_extend 2)))', '(assert ((_ extract 1) #b01))', '(assert ((_ extract 5 2) #b01))', '(assert (ite (= a b)))',
                 '(assert ((_ zero_extend x) #b01))', '(assert (_ bvX 3))', '(assert ((_ sign_extend 1) ((_ sign_extend 1))))', '(assert (=>))',
                 '(assert (= false))', '(assert (xor a))', '(assert (not (< )))', '(assert ((_ extract 3 0) ((_ zero_extend 2))))']
    for cls, text in texts + [(None, m) for m in malformed]:
        exprs = impl.parse(text)
        smtlib.collect_information(exprs)
        for node in impl.nodes.dfs(exprs):
            for c, code in RW.items():
                if cls is not None and c != cls and rng.random() < 0.8:
                    continue
                m = objs[c]
                try:
                    with common.time_limit(5):
                        got = [impl.to_shape(sp.substs[node.id]) for sp in (m.mutations(node) if m.filter(node) else [])]
                    got = [1, w_shapes(got)]
                except Exception:  # noqa
                    got = [0]
                kids = [] if node.is_leaf() else list(node.data) + [g for ch in node.data if not ch.is_leaf() for g in ch.data]
                bws, bvs = [], []
                for ch in kids:
                    try:
                        bws.append([w_shape(impl.to_shape(ch)), smtlib.get_bv_width(ch)])
                        so = smtlib.get_sort(ch)
                        if so is not None and smtlib.is_bv_sort(so):
                            bvs.append(w_shape(impl.to_shape(ch)))
                    except Exception:  # noqa
                        pass
                rcalls.append((code, [w_shape(impl.to_shape(node)), bws, bvs]))
                rmeta.append((c, str(node)[:200], got))
    rres = model.batch(rcalls)
    for (c, node, want), got in zip(rmeta, rres):
        ctx.count('rewrite-model comparisons')
        if got != want:
            ctx.disagree(f'mutations of {c}', input=node, impl=repr(want)[:400], model=repr(got)[:400])
    # (1) sorts
    tres = model.batch(tcalls)
    sort_checked = 0
    for k in range(0, len(tres), 2):
        sa = None if tres[k] == [] else r_shape(tres[k][0])
        sb = None if tres[k + 1] == [] else r_shape(tres[k + 1][0])
        if sa is None:
            ctx.count('term outside the typing fragment')
            continue
        sort_checked += 1
        if sb != sa:
            arg = tcalls[k][1]
            ctx.violation('impl-violation', input='(see term)', mutator='?', term=smtgen.render_shape(r_shape(tcalls[k][1][2])),
                          observed=f'replacement {smtgen.render_shape(r_shape(tcalls[k + 1][1][2]))} has sort {None if sb is None else smtgen.render_shape(sb)}',
                          expected=f'sort {smtgen.render_shape(sa)}')
    ctx.count('pairs re-typed', sort_checked)
    # (2a) values, by the extracted evaluator of Spec/Semantics.v under random assignments (Core/Ints/BV fragment)
    def rand_value(so):
        if so == 'Bool':
            return [0, rng.randrange(2)]
        if so == 'Int':
            return [1, rng.choice([0, 1, 2, 7, 100, 3])]
        if smtgen.is_bv(so):
            n = int(so[2])
            return [2, n, rng.choice([0, 2 ** n - 1, 2 ** (n - 1), rng.randrange(2 ** n)])]
        return None
    ecalls, emeta = [], []
    for (decls, scope, a, b), (cls, text, _, _, capture) in zip(queries, qmeta):
        syms = [(d[1], d[2] if d[0] == 'declare-const' else d[3]) for d in decls if d[0] in ('declare-const', 'declare-fun') and (d[0] == 'declare-const' or d[2] == ())]
        syms += [(n, so) for n, so in scope]
        for _ in range(4):
            rho = []
            for n, so in syms:
                v = rand_value(so)
                if v is not None:
                    rho.append([w_str(n), v])
            ecalls.append((59, [rho, w_shape(a)]))
            ecalls.append((59, [rho, w_shape(b)]))
            emeta.append((cls, text, a, b, capture))
    eres = model.batch(ecalls)
    evaluated = 0
    for k, (cls, text, a, b, capture) in enumerate(emeta):
        va, vb = eres[2 * k], eres[2 * k + 1]
        if va == [] or vb == []:
            continue
        evaluated += 1
        if va != vb:
            ctx.violation('impl-violation', finding_key=capture or None, input=text, mutator=cls,
                          term=smtgen.render_shape(a), replacement=smtgen.render_shape(b),
                          observed=f'values differ under an assignment (Spec/Semantics.eval): {va} vs {vb}', expected='same value')
    ctx.count('pairs evaluated by the extracted evaluator', evaluated)
    # (2b) values, z3
    zres = z3_batch(queries)
    for (cls, text, a, b, capture), r in zip(qmeta, zres):
        first = r.split('\n')[0] if r else ''
        ctx.count('z3 ' + (first if first in ('unsat', 'sat', 'unknown', 'timeout') else 'error'))
        if first == 'sat':
            ctx.violation('impl-violation', finding_key=capture or None,
                          input=text, mutator=cls, term=smtgen.render_shape(a), replacement=smtgen.render_shape(b),
                          observed='the replacement denotes a different value (z3 finds an assignment that distinguishes them)',
                          expected='same value under every assignment', how_to_replay='./check C17 --replay <file>')
        elif first not in ('unsat', 'unknown', 'timeout'):
            ctx.notes.append(f'z3 could not process a {cls} pair: {r[:200]}')
    ctx.assumptions += ['z3 4.8.12 is used as an independent evaluator for the search only (supporting evidence); the theorems are about Spec/Semantics.v',
                        'only the documented binary forms of the false-equality, implication, xor, negated-relation and bvcomp rewrites are claimed']


def replay(d):
    r = z3_batch([(decls_of(__import__('impl').to_shapes(__import__('impl').parse(d['input']))), [], d['term'], d['replacement'])])
    print(r)
    return 1
