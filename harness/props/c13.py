"""C13: the working input is a tree (node identities pairwise distinct)."""
import json

import common
import nodecorr as nc
from nodecorr import w_nodes, r_node, of_impl, canon, shape_of, ids_of


def occurrences(vals):
    occ = {}
    for v in vals:
        for i in ids_of(v):
            occ[i] = occ.get(i, 0) + 1
    return occ


def unique_subtrees(v, occ, acc):
    """collect (id) of maximal subtrees all of whose identities occur once"""
    if all(occ[i] == 1 for i in ids_of(v)):
        acc.append(v)
        return
    if v[0] == 'T':
        for c in v[2]:
            unique_subtrees(c, occ, acc)


def check_property(vals, rv):
    problems = []
    if [shape_of(v) for v in rv] != [shape_of(v) for v in vals]:
        problems.append('rendered tokens changed')
    out_ids = [i for v in rv for i in ids_of(v)]
    if len(set(out_ids)) != len(out_ids):
        dup = sorted(set(i for i in out_ids if out_ids.count(i) > 1))
        problems.append(f'duplicate identities in the result: {dup[:5]}')
    occ = occurrences(vals)
    uniq = []
    for v in vals:
        unique_subtrees(v, occ, uniq)
    outsub = {}

    def index(v):
        outsub[v[1]] = v
        if v[0] == 'T':
            for c in v[2]:
                index(c)
    for v in rv:
        index(v)
    for u in uniq:
        if outsub.get(u[1]) != u:
            problems.append(f'a subtree that was already unique lost its identity (id {u[1]})')
            break
    return problems


def run(ctx):
    ctx.rule = ('lists of nodes with arbitrary sharing built in the implementation (shared leaves, shared subtrees, shared '
                'empty lists, whole trees repeated) and plain trees; non-trivial = some identity occurs at >= 2 positions; '
                'distinct = distinct canonical (shapes, sharing pattern)')
    ctx.proof = common.prove('C13')
    ok, log = common.build_driver()
    if not ok:
        raise common.BuildError(log[-3000:])
    import impl
    model = common.Model()
    rng = ctx.rng
    N = 3000 if ctx.thorough else 500
    calls, meta = [], []
    corpus = []
    x = impl.Node()
    corpus.append([impl.Node(x, x)])                       # F7: shared empty list
    y = impl.Node(impl.Node(), impl.Node())
    corpus.append([y, y, impl.Node('a', y)])
    lf = impl.Node('a')
    corpus.append([impl.Node(lf, lf), lf])
    for it in range(N):
        if it < len(corpus):
            lst = corpus[it]
        elif rng.random() < 0.2:
            lst = [nc.gen_tree(impl, rng, 3) for _ in range(rng.choice([1, 2, 3]))]
        else:
            lst = nc.gen_dag(impl, rng, rng.choice([2, 3, 4]), share=rng.choice([0.15, 0.3, 0.5]))
        vals = [of_impl(t) for t in lst]
        occ = occurrences(vals)
        shared = any(c > 1 for c in occ.values())
        ctx.count('shared' if shared else 'tree')
        # sharing pattern: ids renamed by first appearance
        pat = canon(vals, 0)
        ctx.case(['redup', pat], shared, sample=dict(shapes=repr([shape_of(v) for v in vals])[:200],
                                                     ids=[i for v in vals for i in ids_of(v)][:30]) if shared else None)
        T = nc.counter(impl)
        try:
            with common.time_limit(5):
                res = impl.nodes.reduplicate(lst)
        except Exception as e:  # noqa
            ctx.violation('impl-violation', input=json.dumps(pat), observed=f'exception {type(e).__name__}: {e}', expected='a result')
            continue
        rv = [of_impl(t) for t in res]
        problems = check_property(vals, rv)
        if [of_impl(t) for t in lst] != vals:
            problems.append('the input was modified')
        if problems:
            ctx.violation('impl-violation', input=json.dumps(pat), observed='; '.join(problems), result=repr(rv)[:1000],
                          expected='same tokens, pairwise distinct identities, unique nodes keep their identity')
        calls.append((24, [w_nodes(lst), T]))
        meta.append((canon(rv, T), T, pat))
    # worker-made nodes in the list that is re-duplicated (an accepted candidate keeps the ancestors a worker re-created)
    ncase, probs = nc.cross_process_probe(impl, rng, 12 if ctx.thorough else 4, model=model)
    ctx.count('cross-process reduplicate rounds', ncase)
    for pr in probs:
        if pr.get('kind') == 'disagree':
            ctx.disagree(pr['op'], input=json.dumps(pr['input']), impl=pr['observed'][:800], model=pr['expected'][:800])
        else:
            ctx.violation('impl-violation', op=pr['op'], input=json.dumps(pr['input']), observed=pr['observed'][:800], expected=pr['expected'])
    res = model.batch(calls)
    for (want, T, pat), (f, arg), got in zip(meta, calls, res):
        mv = canon([r_node(x) for x in got], T)
        if mv != want:
            ctx.disagree('reduplicate', input=json.dumps(pat)[:1500], impl=repr(want)[:600], model=repr(mv)[:600])
    # TIE-H: in real runs every round of simplifications is generated from a tree
    import e2e
    import e2ejobs
    nruns = 72 if ctx.thorough else 18
    jobs = []
    for i in range(nruns):
        j = e2ejobs.job(rng, strategy=['ddmin', 'hybrid', 'hierarchical', 'ddmin'][i % 4], jobs=rng.choice([1, 1, 2, 4]),
                        size='small' if i % 2 else 'medium')
        if i % 3 == 0:
            # sharing simplifications: let substitution / variable elimination of leaves
            j['text'] = ['(set-logic ALL)\n(declare-const a Int)\n(declare-const b Int)\n(declare-fun f (Int Int) Int)\n'
                         '(assert (let ((x a)) (> (f x x) (f x b))))\n(assert (= b (f a a)))\n(assert (let ((y (f a b))) (= (f y y) y)))\n(check-sat)\n',
                         # leaf-bound lets only: substitution shares one leaf object and keeps the expression count
                         '(set-logic ALL)\n(declare-const a Int)\n(declare-const b Int)\n(declare-fun f (Int Int) Int)\n'
                         '(assert (let ((x a)) (> (f x x) (f x b))))\n(assert (let ((z b)) (= (f z z) (f a z))))\n(check-sat)\n',
                         '(set-logic ALL)\n(declare-const a Int)\n(declare-const b Int)\n(declare-fun f (Int Int) Int)\n'
                         '(assert (= a b))\n(assert (> (f a a) (f a b)))\n(assert (let ((z b)) (= (f z z) (f a z))))\n(check-sat)\n'][(i // 3) % 3]
            j['cmd'] = [e2e.TOKPRED, 'all', 'f', 'let'] if i % 2 == 0 else [e2e.TOKPRED, 'all', 'f', rng.choice(['a', 'b'])]
            j['opts'] = ['--strategy', ['ddmin', 'hierarchical', 'hybrid'][(i // 3) % 3], '-j', str(rng.choice([1, 1, 3]))]
            # the sharing mutators in isolation (nothing else reshapes the terms first)
            j['opts'] += [[], ['--disable-all', '--let-substitution'], ['--disable-all', '--eliminate-variables', '--let-substitution'],
                          ['--disable-all', '--let-substitution', '--inline-functions']][(i // 3) % 4]
        j['timeout'] = 120
        jobs.append(j)
    # rounds that ddmin processes in PARALLEL (more than 2 x jobs subsets): eight lets, each variable used twice, so that every
    # accepted substitution shares a node; the command accepts three substitutions in all (a budget on the occurrences of f), so
    # that the coarse subsets fail and one acceptance falls into the parallel round; the next round must still start from a tree
    lets = ('(set-logic ALL)\n(declare-fun f (Int) Int)\n(declare-fun p (Int Int) Bool)\n' + ''.join(f'(declare-const c{k} Int)\n' for k in range(8))
            + ''.join(f'(assert (let ((v{k} (f c{k}))) (p v{k} v{k})))\n' for k in range(8)) + '(check-sat)\n')
    for jn in ((2, 3) if ctx.thorough else (2,)):
        jobs.append(dict(text=lets, opts=['--strategy', 'ddmin', '-j', str(jn), '--disable-all', '--let-substitution'], cmd=[e2e.TOKPRED, 'le', '15', 'f'], env={}, timeout=120))
        jobs.append(dict(text=lets, opts=['--strategy', 'hybrid', '-j', str(jn), '--disable-all', '--let-substitution'], cmd=[e2e.TOKPRED, 'le', '15', 'f'], env={}, timeout=120))
    runs = e2e.run_many(jobs)
    rounds = 0
    for j, r in zip(jobs, runs):
        evs = r.ev('producer', 'taskgen')
        rounds += len(evs)
        ctx.case(['run', j['text'], j['opts'], j['cmd'][1:]], len(evs) > 3)
        for msg in e2e.analyse(r)['C13']:
            ctx.violation('impl-violation', input=j['text'], options=j['opts'], command=j['cmd'], observed=msg,
                          expected='every round of simplifications is generated from an input with pairwise distinct identities')
    ctx.count('rounds observed in real runs', rounds)
    if ctx.thorough:
        shard = calls[:200:2]
        vm = model.vm_shard(shard, name='c13shard')
        oc = model.batch(shard)
        bad = sum(1 for a, b in zip(vm, oc) if a != b) + abs(len(vm) - len(oc))
        ctx.extra['vm_compute_shard'] = dict(cases=len(shard), differences_vs_extracted=bad)
        if bad:
            ctx.disagree('extraction vs vm_compute', differences=bad)
    ctx.assumptions += ['all identities of the input are <= the allocator counter (fresh identities are new)']


def replay(d):
    print(json.dumps(d, indent=1)[:3000])
    return 1
