"""C09: a candidate is accepted iff it matches the golden run as documented."""
import itertools
import json
import os
import tempfile

import common
from common import w_str


def pv(v):
    if v is None:
        return []
    if isinstance(v, bool):
        return [0, int(v)]
    if isinstance(v, int):
        return [1, v]
    return [2, w_str(v)]


def w_ostr(s):
    return [] if s is None else [w_str(s)]


def w_cfg(c):
    return [int(c['ignore_output']), int(c['ignore_out']), int(c['ignore_err']), w_ostr(c['match_out']), w_ostr(c['match_err']),
            int(c['has_cc']), int(c['ignore_output_cc']), w_ostr(c['match_out_cc']), w_ostr(c['match_err_cc']), int(c['unchecked'])]


def w_out(o):
    return [] if o is None else [o[0], w_str(o[1]), w_str(o[2])]


WORDS = ['', 'foo', 'xfoox', 'bar', 'fo', 'sat', 'unsat', 'error', 'sat\r', 'foo\rbar', 'caf\u00e9 sat']      # incl. carriage returns and non-ASCII text: streams are compared verbatim


def translate_step(ctx):
    import translate_checker
    try:
        out, facts = translate_checker.translate()
        common.write_if_changed(os.path.join(common.THEORIES, 'Gen', 'CheckerGen.v'), out)
        ctx.extra['translator'] = dict(status='regenerated Gen/CheckerGen.v from ddsmt/checker.py', facts=facts)
        return True
    except Exception as e:  # noqa
        ctx.extra['translator'] = dict(status=f'FAILED CLOSED: {type(e).__name__}: {e}')
        ctx.notes.append('translator failed closed; the theorems are about the last generated Gen/CheckerGen.v and the '
                         'tie is carried by the behavioural correspondence alone')
        return False


def run(ctx):
    ctx.rule = ('(1) exhaustive product for matches_golden: exits {0,1,None} x streams {None,"","foo","xfoox"} x ignore flags x '
                'match strings {None,"","foo"}; (2) real checker.check_exprs runs with a scripted command (and cross-check command) '
                'over random option combinations and outcomes; non-trivial = exit codes equal (so the stream rules decide); '
                'distinct = distinct (options, outcomes)')
    translated = translate_step(ctx)
    ctx.proof = common.prove('C09')
    ok, log = common.build_driver()
    if not ok:
        raise common.BuildError(log[-3000:])
    import impl
    from ddsmt import checker, tmpfiles
    model = common.Model()
    rng = ctx.rng
    RunInfo = checker.RunInfo
    calls, meta = [], []
    # (1) pure, exhaustive
    exits = [0, 1, None]
    streams = [None, '', 'foo', 'xfoox']
    matches = [None, '', 'foo']
    n1 = 0
    for ge, re_, go, ro, ger, rer, io, ie, mo, me in itertools.product(
            exits, exits, ['foo', None], streams, ['', None], ['', 'foo', None], [False, True], [False, True], matches, matches):
        g = RunInfo(ge, go, ger, 0)
        r = RunInfo(re_, ro, rer, 0)
        try:
            got = checker.matches_golden(g, r, io, ie, mo, me)
            got = [1, int(bool(got))] if got is not None else ['none']
        except Exception:  # noqa
            got = [0]
        calls.append((30, [[pv(ge), pv(go), pv(ger)], [pv(re_), pv(ro), pv(rer)], pv(io), pv(ie), pv(mo), pv(me)]))
        meta.append(('matches_golden', got, (ge, go, ger, re_, ro, rer, io, ie, mo, me)))
        n1 += 1
        ctx.case(['mg', ge, go, ger, re_, ro, rer, io, ie, mo, me], ge == re_)
    ctx.count('matches_golden exhaustive', n1)
    # (2) real runs
    script = os.path.join(common.VERIF, 'harness', 'cmds', 'scripted.sh')
    tmpd = tempfile.mkdtemp(prefix='verif-c09-')
    arglog = os.path.join(tmpd, 'arglog')
    os.environ['VERIF_ARGLOG'] = arglog
    A = impl.ARGS
    A.infile = os.path.join(tmpd, 'input.smt2x')
    open(A.infile, 'w').write('x\n')
    tmpfiles.init()
    N = 1500 if ctx.thorough else 250
    try:
        for it in range(N):
            c = dict(ignore_output=rng.random() < 0.2, ignore_out=rng.random() < 0.3, ignore_err=rng.random() < 0.3,
                     match_out=rng.choice([None, None, 'foo', 'sat']), match_err=rng.choice([None, None, 'foo', 'error']),
                     has_cc=rng.random() < 0.4, ignore_output_cc=rng.random() < 0.3,
                     match_out_cc=rng.choice([None, None, 'foo']), match_err_cc=rng.choice([None, None, 'bar']),
                     unchecked=rng.random() < 0.05)

            def outcome(like=None):
                if like is not None and rng.random() < 0.7:
                    o = list(like)
                    k = rng.random()
                    if k < 0.25:
                        o[1] = rng.choice(WORDS)
                    elif k < 0.5:
                        o[2] = rng.choice(WORDS)
                    elif k < 0.6:
                        o[0] = rng.choice([0, 1, 2])
                    return tuple(o)
                return (rng.choice([0, 0, 1, 2]), rng.choice(WORDS), rng.choice(WORDS))
            g, gcc = outcome(), outcome()
            r, rcc = outcome(g), outcome(gcc)
            timeout_case = (not c['unchecked']) and rng.random() < (0.02 if not ctx.thorough else 0.01)
            if c['unchecked']:
                g = gcc = (0, 'unchecked', 'unchecked')
            A.ignore_output, A.ignore_out, A.ignore_err = c['ignore_output'], c['ignore_out'], c['ignore_err']
            A.match_out, A.match_err = c['match_out'], c['match_err']
            A.ignore_output_cc, A.match_out_cc, A.match_err_cc = c['ignore_output_cc'], c['match_out_cc'], c['match_err_cc']
            A.unchecked = c['unchecked']
            A.cmd = [script, 'main', '--opt', 'v']
            A.cmd_cc = [script, 'cc', '-x'] if c['has_cc'] else None
            A.timeout = 0.4 if timeout_case else 20
            A.timeout_cc = 20
            setattr(checker, '__GOLDEN', RunInfo(g[0], g[1], g[2], 0))
            setattr(checker, '__GOLDEN_CC', RunInfo(gcc[0], gcc[1], gcc[2], 0))
            enc = lambda s: s if s else '-'   # noqa
            lines = ['T' if timeout_case else str(r[0]), enc(r[1]), enc(r[2]), str(rcc[0]), enc(rcc[1]), enc(rcc[2])]
            exprs = [impl.Node(x) for x in lines]
            open(arglog, 'w').close()
            try:
                got = checker.check_exprs(exprs)
                got_w = [1, int(bool(got))]
            except Exception as e:  # noqa
                got, got_w = f'exception {type(e).__name__}', [0]
            argv = open(arglog).read().strip('\n').split('\n') if os.path.getsize(arglog) else []
            ctx.count('unchecked' if c['unchecked'] else 'timeout' if timeout_case else 'cc' if c['has_cc'] else 'plain')
            nt = (r[0] == g[0])
            ctx.case(['check', c, g, gcc, r, rcc, timeout_case], nt,
                     sample=dict(options={k: v for k, v in c.items() if v}, golden=g, run=r, accepted=got) if nt and it % 7 == 0 else None)
            mr, mrcc = ((g, gcc) if c['unchecked'] else (r, rcc))   # execute() under --unchecked returns the fixed record
            calls.append((31, [w_cfg(c), w_out(g), w_out(gcc), w_out(None if timeout_case else mr), w_out(mrcc)]))
            meta.append(('check', got_w, (c, g, gcc, r, rcc, timeout_case)))
            # --- the property itself (independent of the model)
            problems = []
            if not timeout_case:
                def sok(ign, m, gs, cs):
                    return ign or ((m in cs) if m else gs == cs)
                want = (c['unchecked'] or (
                    r[0] == g[0] and sok(c['ignore_output'] or c['ignore_out'], c['match_out'], g[1], r[1])
                    and sok(c['ignore_output'] or c['ignore_err'], c['match_err'], g[2], r[2])))
                if want and c['has_cc'] and not c['unchecked']:
                    want = (rcc[0] == gcc[0] and sok(c['ignore_output_cc'], c['match_out_cc'], gcc[1], rcc[1])
                            and sok(c['ignore_output_cc'], c['match_err_cc'], gcc[2], rcc[2]))
                if c['unchecked'] and (c['match_out'] or c['match_err'] or (c['has_cc'] and (c['match_out_cc'] or c['match_err_cc']))):
                    want = got   # golden record "unchecked" would not have passed the match-string validation
                if got != want:
                    problems.append(f'accepted={got}, documented rule says {want}')
                if c['unchecked']:
                    if argv:
                        problems.append(f'--unchecked ran the command: {argv}')
                else:
                    exp_first = f'main --opt v '
                    if not argv or not argv[0].startswith(exp_first) or not argv[0].endswith('.smt2x') or len(argv[0].split()) != 4:
                        problems.append(f'argv of the command: {argv[:1]} (expected original arguments + one file with extension .smt2x)')
                    if len(argv) > 1 and (not argv[1].startswith('cc -x ') or not argv[1].endswith('.smt2x') or len(argv[1].split()) != 3):
                        problems.append(f'argv of the cross-check command: {argv[1:2]}')
                    if len(argv) > 1 and not c['has_cc']:
                        problems.append('cross-check command run without --cross-check')
            else:
                if got is not False:
                    problems.append(f'timed-out candidate: accepted={got}')
            if problems:
                ctx.violation('impl-violation', input=json.dumps(dict(options=c, golden=g, golden_cc=gcc, run=r, run_cc=rcc, timeout=timeout_case)),
                              observed='; '.join(problems), expected='acceptance rule of C09', how_to_replay='./check C09 --replay <file>')
    finally:
        import shutil
        shutil.rmtree(tmpd, ignore_errors=True)
        try:
            getattr(tmpfiles, '__TMPDIR').cleanup()
        except Exception:  # noqa
            pass
    res = model.batch(calls)
    for (op, want, info), (f, arg), got in zip(meta, calls, res):
        if want == ['none']:
            want = [1, 0]   # falling off the end returns None (falsy)
        if got != want:
            ctx.disagree(op, input=repr(info)[:1200], impl=repr(want), model=repr(got),
                         note='Gen/CheckerGen.v regenerated from the source' if translated else 'stale Gen (translator failed closed)')
    if ctx.thorough:
        shard = calls[:600:5] + calls[-100:]
        vm = model.vm_shard(shard, name='c09shard')
        oc = model.batch(shard)
        bad = sum(1 for a, b in zip(vm, oc) if a != b) + abs(len(vm) - len(oc))
        ctx.extra['vm_compute_shard'] = dict(cases=len(shard), differences_vs_extracted=bad)
        if bad:
            ctx.disagree('extraction vs vm_compute', differences=bad)
    ctx.assumptions += ['a configured match string is non-empty (an empty one is Python-falsy and behaves like no match string)',
                        'deterministic command; streams are valid UTF-8']


def replay(d):
    print(json.dumps(d, indent=1)[:3000])
    return 1
