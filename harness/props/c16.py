"""C16: inferred sorts and bit-widths are never wrong."""
import json

import common
import smtgen
from common import w_shape, w_shapes, w_str, r_shape


def sort_shape(s):
    return s


def node_at(exprs, path):
    n = exprs[path[0]]
    for i in path[1:]:
        n = n[i]
    return n


def collect_typed(cmds):
    """[(path, T)] over all commands; for let/quantifier bodies also the binders in scope"""
    res = []

    def go(t, path, scope):
        if t.kind == 'term' and t.sort is not None:
            res.append((path, t, list(scope)))
        args = t.args
        if len(args) == 3 and args[0].op == 'let' and args[1].args:
            b = args[1].args[0]
            go(b.args[1], path + (1, 0, 1), scope)
            go(args[2], path + (2,), scope + [(b.args[0].op, b.args[1].sort)])
            return
        if len(args) == 3 and args[0].op in ('forall', 'exists'):
            v = args[1].args[0]
            go(args[2], path + (2,), scope + [(v.args[0].op, v.args[1].shape())])
            return
        for i, a in enumerate(args):
            go(a, path + (i,), scope)
    for ci, c in enumerate(cmds):
        if c.args and c.args[0].op == 'define-fun' and len(c.args) == 5:
            params = [(p.args[0].op, p.args[1].shape()) for p in c.args[2].args]
            go(c.args[4], (ci, 4), params)
        elif c.args and c.args[0].op == 'assert':
            go(c.args[1], (ci, 1), [])
    return res


def run(ctx):
    ctx.rule = ('well-sorted scripts from the typed generator (validated against the independent typing function Spec/Typing.v, extracted) '
                'and one targeted instance per mutator class; get_sort / get_bv_width on EVERY typed subterm, and every replacement proposed '
                'by Constants / ReplaceByVariable / IntroduceFreshVariable re-typed by the oracle; non-trivial = subterm for which a sort is '
                'inferred (not unknown); distinct = distinct (script, subterm path)')
    ctx.proof = common.prove('C16')
    ok, log = common.build_driver()
    if not ok:
        raise common.BuildError(log[-3000:])
    import impl
    import proposals as P
    import instances
    from ddsmt import smtlib
    model = common.Model()
    rng = ctx.rng
    scripts = []
    for _ in range(400 if ctx.thorough else 50):
        g, cmds = smtgen.gen_script(rng, nasserts=rng.choice([2, 3, 4]), depth=rng.choice([2, 3, 4]))
        scripts.append(cmds)
    for cls in instances.classes():
        for _ in range(4 if ctx.thorough else 1):
            r = instances.make(rng, cls)
            if r is not None and cls not in ('RemoveRecursiveFunction', 'RemoveDatatype', 'SeqNthUnit'):
                scripts.append(r[2])
    # datatypes declared together (declare-datatypes), as in mutually recursive declarations
    for _ in range(6 if ctx.thorough else 2):
        pre = [smtgen.syn(('set-logic', 'ALL')),
               smtgen.syn(('declare-datatypes', (('Tree', '0'), ('Forest', '0')),
                           ((('leaf',), ('node', ('children', 'Forest'))), (('nil',), ('cons', ('head', 'Tree'), ('tail', 'Forest')))))),
               smtgen.syn(('declare-const', 't', 'Tree')), smtgen.syn(('declare-const', 'f', 'Forest'))]
        t1 = smtgen.app('=', [smtgen.leaf('t', 'Tree'), smtgen.app('node', [smtgen.leaf('f', 'Forest')], 'Tree')], 'Bool')
        t2 = smtgen.app('=', [smtgen.leaf('f', 'Forest'), smtgen.app('cons', [smtgen.leaf('t', 'Tree'), smtgen.leaf('nil', 'Forest')], 'Forest')], 'Bool')
        scripts.append(pre + [smtgen.T(None, [smtgen.syn('assert'), t1], None, 'syntax'), smtgen.T(None, [smtgen.syn('assert'), t2], None, 'syntax')])
    # known finding F29: a declared function named like an operator of the oracle's lists
    f29 = [smtgen.syn(('set-logic', 'ALL')), smtgen.syn(('declare-fun', 'member', ('Int',), 'Int')), smtgen.syn(('declare-const', 'n', 'Int')),
           smtgen.T(None, [smtgen.syn('assert'), smtgen.app('>', [smtgen.app('member', [smtgen.leaf('1', 'Int')], 'Int'), smtgen.leaf('n', 'Int')], 'Bool')], None, 'syntax')]
    scripts.append(f29)
    calls, meta = [], []
    unknown = wrong = 0
    for cmds in scripts:
        text = smtgen.script_text(cmds)
        shapes = [c.shape() for c in cmds]
        exprs = impl.parse(text)
        if impl.to_shapes(exprs) != shapes:
            ctx.disagree('generator vs parser', input=text[:500])
            continue
        smtlib.collect_information(exprs)
        typed = collect_typed(cmds)
        lk = [[w_str(str(k)), [] if v is None else [w_shape(impl.to_shape(v))]] for k, v in getattr(smtlib, '__sort_lookup').items()]
        dtc = [[w_str(str(k)), w_shape(impl.to_shape(v))] for k, v in getattr(smtlib, '__datatypes_constructors').items()
               if hasattr(v, 'is_leaf')]
        index_ids = getattr(smtlib, '__indices')
        expected_by_id = {}
        # the multi-datatype declaration is outside decl_env's single-datatype fragment: skip the oracle for it
        has_dts = any(isinstance(s, tuple) and s and s[0] == 'declare-datatypes' for s in shapes)
        for path, t, scope in typed:
            node = node_at(exprs, path)
            expected_by_id[node.id] = (t.sort, scope, path)
            try:
                got = smtlib.get_sort(node)
                got_s = None if got is None else impl.to_shape(got)
                bw = smtlib.get_bv_width(node)
            except Exception as e:  # noqa
                ctx.violation('impl-violation', input=text, term=smtgen.render_shape(t.shape()), observed=f'exception {type(e).__name__}: {e}',
                              expected='a sort or unknown')
                continue
            want = t.sort
            ctx.case([text, path], got_s is not None, sample=dict(term=smtgen.render_shape(t.shape())[:100], sort=smtgen.render_shape(want), inferred=None if got_s is None else smtgen.render_shape(got_s))
                     if got_s is not None and len(ctx.samples) < 5 and len(path) > 3 else None)
            if got_s is None:
                unknown += 1
            elif got_s != want:
                wrong += 1
                ctx.violation('impl-violation', finding_key='F29-user-function-named-like-oracle-operator' if cmds is f29 else None,
                              input=text, term=smtgen.render_shape(t.shape()), path=list(path),
                              observed=f'get_sort = {smtgen.render_shape(got_s)}', expected=f'unknown or {smtgen.render_shape(want)}',
                              how_to_replay='./check C16 --replay <file>')
            wantw = int(want[2]) if smtgen.is_bv(want) else -1
            if bw != -1 and bw != wantw:
                ctx.violation('impl-violation', input=text, term=smtgen.render_shape(t.shape()), path=list(path),
                              observed=f'get_bv_width = {bw}', expected=f'-1 (unknown) or {wantw}' if wantw != -1 else '-1: the term is not a bit-vector')
            if True:
                calls.append((51, [lk, dtc, int(node.id in index_ids), w_shape(t.shape())]))
                meta.append(('model-sort', text, t, got_s))
                calls.append((52, [lk, dtc, w_shape(t.shape())]))
                meta.append(('model-width', text, t, bw))
            if not has_dts and len(path) == 2:
                calls.append((50, [w_shapes(shapes), [[w_str(n), w_shape(s)] for n, s in scope], w_shape(t.shape())]))
                meta.append(('generator', text, t, want))
        # consequences: replacements "of the same sort" are well-sorted
        for p in P.enumerate_proposals(exprs, only=['Constants', 'ReplaceByVariable', 'IntroduceFreshVariable']):
            if 'error' in p or p['node'].id not in expected_by_id:
                continue
            want, scope, path = expected_by_id[p['node'].id]
            s = p['simp']
            v = s.substs.get(p['node'].id)
            if v is None:
                continue
            vshape = impl.to_shape(v)
            extra = list(scope)
            for d in s.fresh_vars:
                ds = impl.to_shape(d)
                if isinstance(ds, tuple) and len(ds) == 3 and ds[0] == 'declare-const':
                    extra.append((ds[1], ds[2]))
            ctx.count('replacements re-typed: ' + p['cls'])
            if has_dts:
                # datatypes declared together: check constructors by hand
                owner = {'leaf': 'Tree', 'node': 'Tree', 'nil': 'Forest', 'cons': 'Forest', 't': 'Tree', 'f': 'Forest'}
                if isinstance(vshape, str) and vshape in owner and owner[vshape] != want:
                    ctx.violation('impl-violation', input=text, term=str(p['node']), mutator=p['cls'],
                                  observed=f'replacement {vshape} has sort {owner[vshape]}', expected=f'sort {want}')
                continue
            calls.append((50, [w_shapes(shapes), [[w_str(n), w_shape(so)] for n, so in extra], w_shape(vshape)]))
            meta.append(('replacement', text, (p['cls'], str(p['node']), smtgen.render_shape(vshape), cmds is f29), want))
    # ---- partially reduced forms in ONE session (sort inference is re-initialised for every round of simplifications):
    # (a) nothing cached for an earlier input may survive collect_information, (b) every sort inferred for a term of the
    # reduced input is re-typed by the oracle
    import props.c17 as c17
    walk_calls, walk_meta = [], []
    nwalk = 60 if ctx.thorough else 14
    dt_text = ('(set-logic ALL)\n(declare-datatypes ((A 0) (B 0)) (((nilA) (mk (fa Int))) ((nilB) (mkb (fb Int)))))\n(declare-const p A)\n(declare-const q B)\n'
               '(assert (= p (mk 1)))\n(assert (= q (mkb 1)))\n(assert (distinct q nilB))\n(check-sat)\n')
    walk_scripts = [dt_text] + [smtgen.script_text(c) for c in rng.sample(scripts[:40], min(nwalk, len(scripts[:40])))]
    for text in walk_scripts:
        exprs = impl.parse(text)
        for step in range(4):
            smtlib.collect_information(exprs)
            ids_now = set(impl.ids_of(exprs))
            stale = [k for k in getattr(smtlib, '__get_sort_cache') if isinstance(k, int) and k not in ids_now]
            if stale:
                ctx.violation('impl-violation', input=impl.render(exprs, 'default'), observed=f'{len(stale)} entries of the sort cache refer to nodes of an earlier input after collect_information',
                              expected='sort inference starts from scratch for every input (a cached sort may be wrong for the new declarations)')
                break
            shapes = impl.to_shapes(exprs)
            simple = not any(isinstance(sh, tuple) and sh and sh[0] in ('declare-datatypes', 'define-funs-rec') for sh in shapes)
            for n in impl.nodes.dfs(exprs):
                try:
                    so = smtlib.get_sort(n)
                except Exception:  # noqa
                    continue
                if so is None or not simple:
                    continue
                scope = c17.scope_of(exprs, n, impl)
                if any(x is None for _, x in scope):
                    continue
                walk_calls.append((50, [w_shapes(shapes), [[w_str(a), w_shape(b)] for a, b in scope], w_shape(impl.to_shape(n))]))
                walk_meta.append((impl.render(exprs, 'default'), str(n)[:200], impl.to_shape(so)))
            props_ = [p for p in P.enumerate_proposals(exprs) if 'error' not in p]
            rng.shuffle(props_)
            moved = False
            for p in props_[:20]:
                try:
                    new = P.apply(exprs, p['simp'])
                    if isinstance(new, list) and impl.to_shapes(new) != shapes:
                        exprs = impl.nodes.reduplicate(new)
                        moved = True
                        break
                except Exception:  # noqa
                    continue
            if not moved:
                break
    # ---- TIE-C for Model/Defaults.v (dispatch 160-165): get_default_constants and get_variables_with_sort, the tables behind them,
    # on the scripts of this run and on a corpus of well-formed and malformed sorts
    import conseqcorr
    conseqcorr.run(ctx, impl, common.Model(), rng, [smtgen.script_text(c) for c in (scripts if ctx.thorough else scripts[:25])])
    # ---- real ddmin runs: when a round of simplifications is generated, the id-based tables (indices of indexed identifiers,
    # definition nodes) must describe THAT input -- also after a re-duplication, which gives shared nodes new ids (F71)
    import e2e
    bvtext = ('(set-logic QF_BV)\n(declare-const x (_ BitVec 8))\n(declare-const y (_ BitVec 8))\n(declare-const z (_ BitVec 8))\n'
              '(assert (= (bvadd x y) z))\n(assert (bvult (bvadd z x) y))\n(check-sat)\n')
    rjobs = [dict(text=bvtext, opts=['--strategy', st, '-j', '1', '--disable-all', '--constants', '--replace-by-variable'],
                  cmd=[e2e.TOKPRED, 'all', 'bvadd'], env={}, timeout=240) for st in (('ddmin', 'hybrid') if ctx.thorough else ('ddmin',))]
    # ... and after an accepted step that keeps the number of expressions (a constant inside a definition): the table of defined
    # functions must follow
    rjobs.append(dict(text='(set-logic ALL)\n(define-fun f () Int 7)\n(define-fun g () Int (+ f 12))\n(declare-const a Int)\n(assert (= a f))\n(assert (< g (* a 9)))\n(check-sat)\n',
                      opts=['--strategy', 'ddmin', '-j', '1', '--disable-all', '--arith-constants', '--inline-functions'], cmd=[e2e.TOKPRED, 'all', 'assert'], env={}, timeout=240))
    for j, r in zip(rjobs, e2e.run_many(rjobs)):
        ctx.case(['tables', j['text'], j['opts']], len(r.ev('taskgen')) > 3)
        ctx.count('task generators of real runs checked for stale tables', len(r.ev('taskgen')))
        for msg in e2e.analyse(r)['C16']:
            ctx.violation('impl-violation', input=j['text'], options=j['opts'], command=j['cmd'], observed=msg,
                          expected='the sort of a node is inferred with tables that were collected for the input the node belongs to')
    # ---- one mutator object lives for a whole pass while the declarations change: a scripted history in which a name is
    # freed (its declaration erased) and then taken by a symbol of another sort; whatever the replacing mutators propose at
    # every step must be well-sorted for the declarations of THAT step
    hist_text = ('(set-logic ALL)\n(declare-const a Int)\n(declare-const b Int)\n(declare-const bb Bool)\n(declare-const k Int)\n'
                 '(assert (or bb (> (+ a k) 5)))\n(check-sat)\n')
    moves = [None,
             ('EraseNode', lambda t: 'declare-const b Int' not in t and all(x in t for x in ('declare-const bb', 'declare-const a ', 'declare-const k', '(+ a k)', 'or bb'))),
             ('SimplifySymbolNames', lambda t: 'declare-const b Bool' in t),
             ('EraseNode', lambda t: 'declare-const k Int' not in t and '(+ a k)' in t)]
    persistent = P.all_mutators()
    exprs = impl.parse(hist_text)
    hist_calls, hist_meta = [], []
    for mv in moves:
        if mv is not None:
            nxt = None
            for p in P.enumerate_proposals(exprs, only=[mv[0]], mutator_objects=persistent):
                if 'error' in p:
                    continue
                try:
                    new = P.apply(exprs, p['simp'])
                except Exception:  # noqa
                    continue
                if isinstance(new, list) and mv[1](impl.render(new, 'default')):
                    nxt = impl.nodes.reduplicate(new)
                    break
            if nxt is None:
                ctx.count('scripted history: move not available')
                break
            exprs = nxt
        shapes = impl.to_shapes(exprs)
        text_now = impl.render(exprs, 'default')
        for p in P.enumerate_proposals(exprs, only=['Constants', 'ReplaceByVariable', 'IntroduceFreshVariable'], mutator_objects=persistent):
            if 'error' in p or p['node'].id not in set(impl.ids_of(exprs)):
                continue
            v = p['simp'].substs.get(p['node'].id)
            if v is None:
                continue
            extra = []
            for d_ in p['simp'].fresh_vars:
                ds = impl.to_shape(d_)
                if isinstance(ds, tuple) and len(ds) == 3 and ds[0] == 'declare-const':
                    extra.append((ds[1], ds[2]))
            hist_calls.append((50, [w_shapes(shapes), [], w_shape(impl.to_shape(p['node']))]))
            hist_calls.append((50, [w_shapes(shapes), [[w_str(n_), w_shape(so_)] for n_, so_ in extra], w_shape(impl.to_shape(v))]))
            hist_meta.append((text_now, p['cls'], str(p['node'])[:120], str(v)[:120]))
    hres = model.batch(hist_calls)
    for k, (text_now, cls_, node_, repl_) in enumerate(hist_meta):
        wn, wr = hres[2 * k], hres[2 * k + 1]
        ctx.count('scripted history: replacements re-typed')
        if wn == []:
            continue        # not a term (head symbol, declaration, ...)
        ctx.case(['hist', text_now, cls_, node_, repl_], True)
        if wr == [] or r_shape(wr[0]) != r_shape(wn[0]):
            ctx.violation('impl-violation', input=text_now, mutator=cls_, term=node_,
                          observed=f'after a history of accepted simplifications {cls_} proposes {repl_}, which has '
                                   f'{"no sort" if wr == [] else "sort " + smtgen.render_shape(r_shape(wr[0]))} under the declarations of the current input',
                          expected=f'a replacement of sort {smtgen.render_shape(r_shape(wn[0]))}')
    for (text, node, got_s), w in zip(walk_meta, model.batch(walk_calls)):
        ctx.count('sorts of reduced forms re-typed')
        if w == []:
            continue                    # the oracle does not type this node (not a term / ill-sorted after reduction)
        want_s = r_shape(w[0])
        ctx.case(['walk', text, node], True)
        if want_s != got_s:
            ctx.violation('impl-violation', input=text, term=node, observed=f'get_sort = {smtgen.render_shape(got_s)} on a partially reduced input',
                          expected=f'unknown or {smtgen.render_shape(want_s)}')
    res = model.batch(calls)
    for (kind, text, info, want), got in zip(meta, res):
        if kind == 'model-width':
            if got != want:
                ctx.disagree('get_bv_width', input=smtgen.render_shape(info.shape())[:400], impl=want, model=got)
            continue
        got_s = None if got == [] else r_shape(got[0])
        if kind == 'model-sort':
            if got_s != want:
                ctx.disagree('get_sort', input=smtgen.render_shape(info.shape())[:400], impl=None if want is None else smtgen.render_shape(want),
                             model=None if got_s is None else smtgen.render_shape(got_s))
            continue
        if kind == 'generator':
            if got_s != want:
                ctx.disagree('typed generator vs Spec/Typing.type_of', input=smtgen.render_shape(info.shape())[:400],
                             impl=smtgen.render_shape(want), model=None if got_s is None else smtgen.render_shape(got_s))
        else:
            cls, node, repl, is_f29 = info
            if got_s != want:
                ctx.violation('impl-violation', finding_key='F29-user-function-named-like-oracle-operator' if is_f29 else None,
                              input=text, term=node, mutator=cls,
                              observed=f'replacement {repl} has sort {None if got_s is None else smtgen.render_shape(got_s)}',
                              expected=f'a term of sort {smtgen.render_shape(want)}', how_to_replay='./check C16 --replay <file>')
    ctx.count('subterms with unknown sort', unknown)
    ctx.count('typed subterms', sum(1 for m in meta if m[0] == 'generator'))
    # hand-typed terms the generator does not produce: rounding modes that are declared symbols, operands of unknown sort
    HAND = [('(set-logic ALL)\n(declare-const r RoundingMode)\n(declare-fun g (Int) (_ FloatingPoint 8 24))\n(declare-const x Int)\n'
             '(assert (fp.isNaN (fp.add r (g x) (_ +zero 8 24))))\n(assert (fp.isNaN (fp.mul r (g x) (g 1))))\n'
             '(assert (fp.isNaN (fp.sqrt r (g x))))\n(assert (fp.isNaN (fp.fma r (g x) (g 1) (g 2))))\n(check-sat)\n',
             {'(fp.add r (g x) (_ +zero 8 24))': ('_', 'FloatingPoint', '8', '24'), '(fp.mul r (g x) (g 1))': ('_', 'FloatingPoint', '8', '24'),
              '(fp.sqrt r (g x))': ('_', 'FloatingPoint', '8', '24'), '(fp.fma r (g x) (g 1) (g 2))': ('_', 'FloatingPoint', '8', '24'),
              'r': 'RoundingMode', '(g x)': ('_', 'FloatingPoint', '8', '24')}),
            # a parametric datatype: the sort of a constructor application is the instantiated sort, not the bare name
            ('(set-logic ALL)\n(declare-datatypes ((Lst 1)) ((par (T) ((nil) (cons (hd T) (tl (Lst T)))))))\n(declare-const l (Lst Int))\n'
             '(declare-const k (Lst Int))\n(assert (= k (cons 1 l)))\n(assert (= 1 (hd (cons 2 l))))\n(check-sat)\n',
             {'(cons 1 l)': ('Lst', 'Int'), '(cons 2 l)': ('Lst', 'Int'), 'l': ('Lst', 'Int'), 'k': ('Lst', 'Int'), '(hd (cons 2 l))': 'Int'})]
    for text_, typed in HAND:
        ex_ = impl.parse(text_)
        smtlib.collect_information(ex_)
        for node in impl.nodes.dfs(ex_):
            key_ = str(node)
            if key_ in typed and not smtlib.is_definition_node(node):
                ctx.case(['hand-typed', key_], True)
                so = smtlib.get_sort(node)
                if so is not None and impl.to_shape(so) != typed[key_]:
                    ctx.violation('impl-violation', input=text_, term=key_, observed=f'get_sort = {smtgen.render_shape(impl.to_shape(so))}',
                                  expected=f'unknown or {smtgen.render_shape(typed[key_])}')
    # logic-dependent numerals: in a logic with Reals only (QF_LRA, LRA, QF_NRA ...) a numeral denotes a Real
    lra = '(set-logic QF_LRA)\n(declare-const x Real)\n(assert (<= x (- 5)))\n(assert (< (+ x 2) 7))\n(check-sat)\n'
    ex_ = impl.parse(lra)
    smtlib.collect_information(ex_)
    for node in impl.nodes.dfs(ex_):
        if node.is_leaf() and node.data.isdigit():
            ctx.case(['numeral in QF_LRA', node.data], True)
            so = smtlib.get_sort(node)
            if so is not None and impl.to_shape(so) != 'Real':
                ctx.violation('impl-violation', finding_key='F53-numerals-are-int-in-real-logics', input=lra, term=node.data,
                              observed=f'get_sort = {impl.to_shape(so)}', expected='unknown or Real (the logic has no Ints)')
    ctx.assumptions += ['every declared/defined/bound symbol is bound exactly once (generator invariant)',
                        'the structural get_sort cache is not modelled; it is exercised because every subterm of a script is queried in one session']


def replay(d):
    import impl
    from ddsmt import smtlib
    exprs = impl.parse(d['input'])
    smtlib.collect_information(exprs)
    if 'path' in d:
        n = node_at(exprs, d['path'])
        print(str(n), '->', smtlib.get_sort(n), smtlib.get_bv_width(n), '| expected', d['expected'])
    return 1
