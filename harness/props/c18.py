"""C18: sequential runs are reproducible."""
import json
import re

import common
import e2e
import e2ejobs

FRESH = re.compile(r'x\d+__fresh')


def normalise_fresh(text):
    """Rename x<id>__fresh names by order of first occurrence (known finding F18)."""
    ren = {}

    def sub(m):
        return ren.setdefault(m.group(0), f'x#{len(ren)}__fresh')
    return FRESH.sub(sub, text or '')


def run(ctx):
    ctx.rule = ('each (input, options, command) is run three times with -j 1 under different PYTHONHASHSEED values, command '
                'delays and worker delays; the sequences of written contents and the output bytes must coincide; non-trivial = '
                'at least two contents were written; distinct = distinct (input, options, command)')
    ctx.proof = common.prove('C18')
    rng = ctx.rng
    n = 60 if ctx.thorough else 14
    base = []
    for i in range(n):
        j = e2ejobs.job(rng, jobs=1, delays=False, size='small' if i % 3 else 'medium',
                        strategy=['hierarchical', 'hybrid', 'ddmin'][i % 3])
        base.append(j)
    # ddmin groups the first simplification of every node of a subset into one candidate: inputs on which mutators that
    # introduce declarations apply to several nodes at once
    grp = ('(set-logic ALL)\n' + ''.join(f'(declare-const b{k} (_ BitVec {4 + k}))\n' for k in range(5)) + '(declare-const s String)\n(declare-const t String)\n'
           + ''.join(f'(assert (= b{k} (bvadd b{k} b{k})))\n' for k in range(5)) + '(assert (str.contains s "ab"))\n(assert (str.contains t "cd"))\n(check-sat)\n')
    for st in (['ddmin', 'hybrid', 'ddmin'] if ctx.thorough else ['ddmin']):
        base.append(dict(text=grp, opts=['--strategy', st, '-j', '1'], cmd=[e2e.TOKPRED, rng.choice(['all', 'hash5']), 'check-sat'], env={}))
    variants = [dict(PYTHONHASHSEED='0'), dict(PYTHONHASHSEED='1', VERIF_CMD_DELAY='7', VERIF_WORKER_DELAY='3'),
                dict(PYTHONHASHSEED='987654', VERIF_CMD_DELAY='25', VERIF_SLOW_CONSUMER='4', VERIF_SLOW_ADOPT='40')]      # the last: a main process that is slow to react to a success
    jobs = []
    for j in base:
        for v in variants:
            jobs.append(dict(text=j['text'], opts=j['opts'], cmd=j['cmd'], env=v))
    if ctx.thorough:
        # targeted reproduction of the known finding F18: many fresh-variable proposals, hierarchical, -j 1
        big = '(set-logic QF_LIA)\n' + ''.join(f'(declare-const v{k} Int)\n' for k in range(8)) + \
            ''.join(f'(assert (> (+ v{k % 8} {k}) (* v{(k + 3) % 8} 2)))\n' for k in range(300)) + '(check-sat)\n'
        jb = dict(text=big, opts=['--strategy', 'hierarchical', '--disable-all', '--introduce-fresh-variables', '-j', '1'],
                  cmd=[e2e.TOKPRED, 'all', '+', '*'])
        base.append(jb)
        for v in variants:
            jobs.append(dict(text=big, opts=jb['opts'], cmd=jb['cmd'], env=v, timeout=900))
    runs = e2e.run_many(jobs)
    known = {k['key']: k for k in ctx.known}
    for i, j in enumerate(base):
        rs = runs[3 * i:3 * i + 3]
        ws = [e2e.writes_of(r) for r in rs]
        outs = [r.outtext for r in rs]
        ctx.case([j['text'], j['opts'], j['cmd'][1:]], len(ws[0]) >= 2,
                 sample=dict(options=j['opts'], command=j['cmd'][1:], writes=len(ws[0])) if len(ws[0]) >= 2 else None)
        ctx.count(j['opts'][1])
        if any(r.hung or r.rc != 0 for r in rs):
            ctx.notes.append(f'run ended abnormally: {j["opts"]}')
            continue
        if all(w == ws[0] for w in ws) and all(o == outs[0] for o in outs):
            continue
        # differing: is it only the naming of fresh variables?
        nouts = [normalise_fresh(o) for o in outs]
        if all(o == nouts[0] for o in nouts) and len(set(len(w) for w in ws)) == 1 and any(FRESH.search(o or '') for o in outs):
            ctx.violation('impl-violation', finding_key='F18-fresh-variable-name-from-node-id', input=j['text'], options=j['opts'],
                          command=j['cmd'], observed=f'outputs differ only in x<id>__fresh names: {sorted(set(FRESH.findall("".join(o or "" for o in outs))))[:6]}',
                          expected='byte-identical outputs')
            ctx.count('known-finding F18 reproduced')
            continue
        ctx.violation('impl-violation', input=j['text'], options=j['opts'], command=j['cmd'], variants=variants,
                      observed=dict(write_sequences=ws, outputs=outs), expected='same sequence of accepted inputs and byte-identical outputs',
                      how_to_replay='./check C18 --replay <file>')
    # TIE-C for the hypothesis of seq_deterministic: the enumeration of proposals (every mutator, every node, in order)
    # does not depend on the string hash seed
    import os
    import subprocess
    import tempfile
    import shutil
    import concurrent.futures
    import smtgen
    nin = 60 if ctx.thorough else 16
    d = tempfile.mkdtemp(prefix='verif-c18-', dir=e2e.SCRATCH_ROOT)
    try:
        files = []
        for k in range(nin):
            th = ['core', 'dt'] + [t for t in ['ints', 'bv', 'strings', 'fp', 'arrays', 'reals'] if rng.random() < 0.4]
            g, cmds = smtgen.gen_script(rng, theories=th, nasserts=rng.choice([2, 3, 4]), depth=2)
            fn = os.path.join(d, f'p{k}.smt2')
            open(fn, 'w').write(smtgen.script_text(cmds))
            files.append(fn)

        def dump(args):
            fn, seed = args
            env = dict(os.environ, PYTHONPATH=os.path.join(common.VERIF, 'harness'), PYTHONHASHSEED=seed)
            p = subprocess.run([common.PY, os.path.join(common.VERIF, 'harness', 'proposals.py'), fn], stdout=subprocess.PIPE,
                               stderr=subprocess.DEVNULL, text=True, env=env, timeout=300)
            # ... and the grouped candidates of ddmin's task generator
            q = subprocess.run([common.PY, os.path.join(common.VERIF, 'harness', 'proposals.py'), '--ddmin', fn], stdout=subprocess.PIPE,
                               stderr=subprocess.DEVNULL, text=True, env=env, timeout=300)
            return p.stdout + q.stdout
        seeds = ['0', '1', '424242']
        with concurrent.futures.ThreadPoolExecutor(max(2, common.NCPU // 2)) as ex:
            outs = list(ex.map(dump, [(fn, sd) for fn in files for sd in seeds]))
        nprops = 0
        for k, fn in enumerate(files):
            o = outs[3 * k:3 * k + 3]
            nprops += o[0].count('\n')
            ctx.case(['proposals', open(fn).read()], o[0].count('\n') > 10)
            if not (o[0] == o[1] == o[2]):
                a, b = (o[0].split('\n'), (o[1] if o[1] != o[0] else o[2]).split('\n'))
                diff = next(((x, y) for x, y in zip(a, b) if x != y), (a[-1:], b[-1:]))
                ctx.violation('impl-violation', input=open(fn).read(), options=['(proposal enumeration)'], command=[],
                              observed=f'the order/content of proposals depends on PYTHONHASHSEED: {diff[0][:300]!r} vs {diff[1][:300]!r}',
                              expected='identical proposal lists for every hash seed')
        ctx.count('proposals enumerated under 3 hash seeds', nprops)
    finally:
        shutil.rmtree(d, ignore_errors=True)
    ctx.extra['runs'] = len(runs)
    ctx.assumptions += ['deterministic command depending on the token sequence only',
                        'known finding F18 (fresh-variable names derived from node identities) is recognised by renaming x<id>__fresh tokens']


def replay(d):
    outs = []
    for v in d.get('variants', [{}]):
        r = e2e.run_ddsmt(d['input'], d['options'], d['command'], env=v)
        outs.append((e2e.writes_of(r), r.outtext))
    same = all(o == outs[0] for o in outs)
    print('identical' if same else 'DIFFERENT', [o[0] for o in outs])
    return 0 if same else 1
