"""C14: exactly the enabled mutators are used."""
import itertools
import json
import os

import common
from common import w_str, r_str

DECLS = {
    'arithmetic': ['(declare-const x Int)', '(declare-fun y () Real)', '(define-fun z () Int 3)', '(define-sort S () Real)',
                   # the sort as argument sort, parameter sort, in a recursive definition (fix F43)
                   '(declare-fun fa (Int) Bool)', '(define-fun ga ((xa Real)) Bool true)', '(define-fun-rec ra ((xa Int)) Bool true)',
                   # ... in a quantifier binder, define-const, declare-var (F43b)
                   '(assert (forall ((qa Int)) true))', '(define-const ca Int 5)', '(declare-var va Real)',
                   # ... spelled with bars (|Int| is Int), with a comment next to it (comments are leaves of ddSMT's tree)
                   '(declare-const xq |Int|)', '(declare-fun fq (|Real|) Bool)', '(declare-const xc ; an integer\n Int)'],
    'bv': ['(declare-const b (_ BitVec 8))', '(declare-fun c () (_ BitVec 4))', '(define-fun d () (_ BitVec 2) #b01)',
           '(declare-fun fb ((_ BitVec 8)) Bool)', '(define-fun gb ((xb (_ BitVec 3))) Bool true)', '(assert (exists ((qb (_ BitVec 8))) true))',
           '(declare-const bc (_ BitVec ; width\n 8))', '(declare-const bd (_ ; c\n BitVec 8))', '(declare-const bq (_ |BitVec| 8))'],
    'datatypes': ['(declare-datatype D ((k)))', '(declare-datatypes ((E 0)) (((m))))', '(declare-codatatypes ((S9 0)) (((c9 (s9 S9)))))',
                  '(; c\n declare-datatypes ((Lc 0)) (((nilc) (consc (hdc Lc)))))'],
    'fp': ['(declare-const f Float32)', '(declare-const r RoundingMode)', '(declare-fun g () (_ FloatingPoint 5 11))',
           '(declare-fun ff ((_ FloatingPoint 8 24)) Bool)', '(define-fun gf ((xf RoundingMode)) Bool true)',
           '(declare-const fc (_ FloatingPoint 8 24 ; single\n))', '(declare-const rq |RoundingMode|)', '(declare-const fq |Float32|)'],
    'strings': ['(declare-const s String)', '(declare-fun t () (Seq Int2))', '(define-fun u () String "a")',
                '(declare-fun fs (String) Bool)', '(declare-const rl RegLan)', '(define-fun gs ((xs (Seq Int2))) Bool true)',
                '(declare-const sc ( ; c\n Seq Bool))', '(declare-const sq |String|)'],
}
MIXED = [('(declare-const m1 (Array Int (_ BitVec 8)))', {'arithmetic', 'bv'}), ('(declare-fun m2 (Int String) (_ BitVec 4))', {'arithmetic', 'strings', 'bv'}),
         ('(declare-const m3 (Seq Int))', {'arithmetic', 'strings'}), ('(declare-fun m4 (RoundingMode (_ BitVec 3)) Real)', {'fp', 'bv', 'arithmetic'}),
         ('(declare-datatype M5 ((mk (fld Int) (fld2 String))))', {'datatypes', 'arithmetic', 'strings'}),
         ('(define-fun m6 ((z Float32)) (Array Int String) ((as const (Array Int String)) ""))', {'fp', 'arithmetic', 'strings'})]
NEUTRAL = ['(set-logic ALL)', '(declare-const p Bool)', '(assert p)', '(check-sat)', '(declare-sort U 0)', '(declare-fun q (U) Bool)']


def translate_step(ctx):
    import translate_tables
    try:
        out, info = translate_tables.translate()
        common.write_if_changed(os.path.join(common.THEORIES, 'Gen', 'Tables.v'), out)
        ctx.extra['translator'] = dict(status='regenerated Gen/Tables.v from ddsmt/mutators*.py and strategy_*.py', theories=info['theories'])
        return True
    except Exception as e:  # noqa
        ctx.extra['translator'] = dict(status=f'FAILED CLOSED: {type(e).__name__}: {e}')
        ctx.notes.append('translator failed closed; theorems are about the last generated Gen/Tables.v, tie carried by correspondence')
        return False


def run(ctx):
    ctx.rule = ('option sequences: every single mutator/group/--disable-all option, ordered pairs (all in thorough, a sample in quick), '
                'random sequences up to length 8, each with an input that does or does not declare symbols of each detectable theory; '
                'non-trivial = the enabled set differs from the default; distinct = distinct (option sequence, declared theories)')
    translated = translate_step(ctx)
    # Props/RelevanceProps.v composes the relevance model with the theorems of Props/C14.v (so it imports that file)
    ctx.proof = common.prove('C14', also=['RelevanceProps'])
    ok, log = common.build_driver()
    if not ok:
        raise common.BuildError(log[-3000:])
    import impl
    from ddsmt import options, mutators, strategy_hierarchical, strategy_ddmin
    model = common.Model()
    rng = ctx.rng
    allm = mutators.get_all_mutators()
    theories = list(allm)
    mopts = [(t, cls, opt) for t, (mod, reg) in allm.items() for cls, opt in reg.items()]
    singles = []
    for t, cls, opt in mopts:
        singles.append((f'--{opt}', [0, w_str(opt), 1]))
        singles.append((f'--no-{opt}', [0, w_str(opt), 0]))
    for t in theories:
        singles.append((f'--{t}', [1, w_str(t), 1]))
        singles.append((f'--no-{t}', [1, w_str(t), 0]))
    singles.append(('--disable-all', [2]))
    seqs = [[]] + [[s] for s in singles]
    pairs = list(itertools.product(singles, singles))
    if ctx.thorough:
        seqs += [list(p) for p in pairs]
    else:
        seqs += [list(p) for p in rng.sample(pairs, 1200)]
    for _ in range(3000 if ctx.thorough else 400):
        seqs.append([rng.choice(singles) for _ in range(rng.randint(3, 8))])
    ctx.count('singles', len(singles))
    default_enabled = None
    calls, meta = [], []
    all_decl = sorted(DECLS)
    for k, seq in enumerate(seqs):
        declared = set(t for t in all_decl if rng.random() < 0.4)
        if k % 5 == 0:
            declared = set()
        parts = [rng.choice(DECLS[t]) for t in declared]
        if k % 3 == 1:
            # ONE command that declares something of several theories at once (and may be their only declaration)
            mtext, mth = rng.choice(MIXED)
            parts.append(mtext)
            declared |= mth
        rng.shuffle(parts)
        text = ' '.join(rng.sample(NEUTRAL, 3) + parts)
        exprs = impl.parse(text)
        argv = [s for s, _ in seq] + ['in.smt2', 'out.smt2', 'cmd']
        try:
            ns = options.parse_options(mutators, argv)
            setattr(options, '__PARSED_ARGS', ns)
            mutators.auto_detect_theories(exprs)
            hp = strategy_hierarchical.get_passes()
            dp = strategy_ddmin.ddmin_passes()
            hp2 = strategy_hierarchical.get_passes()      # strategy hybrid constructs the hierarchical passes AFTER the ddmin ones
        except (Exception, SystemExit) as e:  # noqa
            ctx.violation('impl-violation', input=json.dumps(dict(options=argv, text=text)), observed=f'{type(e).__name__}: {e}',
                          expected='options parsed, passes constructed')
            continue
        hier = [[type(m).__name__ for m in (p[0] if isinstance(p, tuple) else p)] for p in hp]
        hier2 = [[type(m).__name__ for m in (p[0] if isinstance(p, tuple) else p)] for p in hp2]
        if hier2 != hier:
            ctx.violation('impl-violation', input=json.dumps(dict(options=argv, text=text)),
                          observed=f'constructing the ddmin passes changes the hierarchical passes (hybrid): missing {sorted(set(sum(hier, [])) - set(sum(hier2, [])))}',
                          expected='the enabled mutators do not depend on which strategy ran before')
        ddm = [[type(m).__name__ for m in p] for p in dp]
        rels = [[w_str(t), int(t in declared)] for t in theories]
        calls.append((40, [[w for _, w in seq], rels]))
        meta.append((argv[:-3], sorted(declared), hier, ddm, text))
    res = model.batch(calls)
    for (argv, declared, hier, ddm, text), got in zip(meta, res):
        m_enabled = [r_str(x) for x in got[0]]
        m_hier = [[r_str(x) for x in p] for p in got[1]]
        m_ddm = [[r_str(x) for x in p] for p in got[2]]
        spec = set(r_str(x) for x in got[3])
        if default_enabled is None:
            default_enabled = spec
        ctx.case([argv, declared], spec != default_enabled,
                 sample=dict(options=argv, declares=declared, enabled=len(spec)) if len(argv) >= 2 and len(ctx.samples) < 6 else None)
        ctx.count(f'len={min(len(argv), 3)}{"+" if len(argv) > 3 else ""}')
        if hier != m_hier:
            ctx.disagree('get_passes', input=repr((argv, declared)), impl=repr(hier)[:800], model=repr(m_hier)[:800])
        if ddm != m_ddm:
            ctx.disagree('ddmin_passes', input=repr((argv, declared)), impl=repr(ddm)[:800], model=repr(m_ddm)[:800])
        if set(m_enabled) != spec:
            ctx.disagree('enabled vs enabled_spec (model-internal)', input=repr((argv, declared)), model=repr(sorted(m_enabled)), impl=repr(sorted(spec)))
        # the property itself, against the specification
        problems = []
        used = set(c for p in hier for c in p) | set(c for p in ddm for c in p)
        if not used <= spec:
            problems.append(f'mutators used although not enabled: {sorted(used - spec)}')
        if set(hier[-1]) != spec:
            problems.append(f'enabled but missing from the last hierarchical pass: {sorted(spec - set(hier[-1]))}')
        dd = set(c for p in ddm for c in p)
        if dd != spec - {'BinaryReduction'}:
            problems.append(f'ddmin passes differ from enabled minus BinaryReduction: missing {sorted(spec - {"BinaryReduction"} - dd)} extra {sorted(dd - spec)}')
        if problems:
            ctx.violation('impl-violation', input=json.dumps(dict(options=argv, declares=declared, text=text)), observed='; '.join(problems)[:1500],
                          expected='exactly the enabled mutators are scheduled', how_to_replay='./check C14 --replay <file>')
    # TIE-H: in real runs the mutators of every hierarchical pass / ddmin task generator are exactly the model's
    import e2e
    import e2ejobs
    rjobs = []
    for k in range(24 if ctx.thorough else 6):
        extra = rng.choice([[], ['--no-bv'], ['--disable-all', '--erase-node', '--constants'], ['--no-constants', '--no-arith-constants'],
                            ['--disable-all', '--arithmetic'], ['--no-smtlib']])
        rjobs.append(dict(e2ejobs.job(rng, strategy=['hybrid', 'hierarchical', 'ddmin'][k % 3], jobs=1, size='small', extra=extra), timeout=240))
    rruns = e2e.run_many(rjobs)
    tcalls, tmeta = [], []
    for j, r in zip(rjobs, rruns):
        if r.hung or r.rc != 0:
            continue
        optseq = []
        for o in j['opts']:
            if o == '--disable-all':
                optseq.append([2])
            elif o.startswith('--no-') and o[5:] in theories:
                optseq.append([1, w_str(o[5:]), 0])
            elif o.startswith('--') and o[2:] in theories:
                optseq.append([1, w_str(o[2:]), 1])
            elif o.startswith('--no-') and o[5:] in [m[2] for m in mopts]:
                optseq.append([0, w_str(o[5:]), 0])
            elif o.startswith('--') and o[2:] in [m[2] for m in mopts]:
                optseq.append([0, w_str(o[2:]), 1])
        exprs = impl.parse(j['text'])
        ns = options.parse_options(mutators, ['in.smt2', 'out.smt2', 'cmd'])
        setattr(options, '__PARSED_ARGS', ns)
        rel = {}
        for t, (mod, reg) in allm.items():
            rel[t] = hasattr(mod, 'is_relevant') and any(mod.is_relevant(n) for n in impl.nodes.dfs(exprs, max_depth=1))
        tcalls.append((40, [optseq, [[w_str(t), int(rel[t])] for t in theories]]))
        tmeta.append((j, r))
    for (j, r), got in zip(tmeta, model.batch(tcalls)):
        m_hier = [[r_str(x) for x in p] for p in got[1]]
        m_ddm = [[r_str(x) for x in p] for p in got[2]]
        passes = {e['id']: e['mutators'] for e in r.ev('pass')}
        ctx.case(['real-run', j['opts'], j['text']], True)
        ctx.count('real runs (pass lists observed)')
        for pid_, muts in passes.items():
            if muts != m_hier[pid_]:
                ctx.violation('impl-violation', input=json.dumps(dict(options=j['opts'], text=j['text'])),
                              observed=f'hierarchical pass {pid_} of a real run uses {muts}; the enabled mutators give {m_hier[pid_]}',
                              expected='exactly the enabled mutators are scheduled')
        used = set(e['mutator'] for e in r.ev('taskgen'))
        allowed = set(sum(m_ddm, []))
        if not used <= allowed:
            ctx.violation('impl-violation', input=json.dumps(dict(options=j['opts'], text=j['text'])),
                          observed=f'ddmin used mutators that are not enabled: {sorted(used - allowed)}', expected='only enabled mutators')
    if ctx.thorough:
        shard = calls[:400:4]
        vm = model.vm_shard(shard, name='c14shard')
        oc = model.batch(shard)
        bad = sum(1 for a, b in zip(vm, oc) if a != b) + abs(len(vm) - len(oc))
        ctx.extra['vm_compute_shard'] = dict(cases=len(shard), differences_vs_extracted=bad)
        if bad:
            ctx.disagree('extraction vs vm_compute', differences=bad)
    # TIE-C for Model/Relevance.v (dispatch 150-153): the relevance tests of auto_detect_theories on generated scripts, on every
    # sort in every sort position (with comments and quoted spellings) and on a malformed corpus
    import relcorr
    import smtgen
    rtexts = [smtgen.script_text(smtgen.gen_script(rng, nasserts=rng.choice([1, 2, 3]), depth=2)[1]) for _ in range(200 if ctx.thorough else 30)]
    relcorr.run(ctx, impl, common.Model(), rng, rtexts, nfuzz=600 if ctx.thorough else 100)
    # TIE-H: "every enabled mutator is scheduled ... in ddmin": in real runs EVERY round of the ddmin main loop goes through the
    # whole pass lists (a run in which a mutator gets its candidate only after a later mutator has succeeded needs a second round)
    import e2e
    head = '(declare-const a Bool)\n(declare-const b Bool)\n(declare-const c Bool)\n'
    forms = ['(assert (and a (not (not (and b c)))))\n', '(assert (and a (and b c)))\n', '(assert (and a b c))\n']
    rjobs = [dict(text=head + forms[0], opts=['--strategy', 'ddmin', '-j', '1'], cmd=[e2e.TOKPRED, 'set'] + [e2e.sh_digest(head + f) for f in forms], env={}, timeout=240),
             dict(text=head + forms[0], opts=['--strategy', 'hybrid', '-j', '2'], cmd=[e2e.TOKPRED, 'set'] + [e2e.sh_digest(head + f) for f in forms], env={}, timeout=240)]
    if ctx.thorough:
        import e2ejobs
        rjobs += [e2ejobs.job(rng, strategy='ddmin', jobs=rng.choice([1, 3]), size='small') for _ in range(6)]
    for j, r in zip(rjobs, e2e.run_many(rjobs)):
        rounds = len([e for e in r.ev('taskgen') if e.get('first') and e.get('mid') == 1000])
        ctx.case(['ddmin rounds', j['text'], j['opts']], rounds >= 2)
        ctx.count('rounds of the ddmin main loop observed', rounds)
        if r.hung or r.rc != 0:
            ctx.notes.append(f'ddmin run ended abnormally (rc={r.rc}, hung={r.hung})')
            continue
        for msg in e2e.analyse(r)['C14']:
            ctx.violation('impl-violation', input=j['text'], options=j['opts'], command=j['cmd'], observed=msg,
                          expected='every round of the ddmin main loop schedules every enabled mutator of the pass lists')
        if j['cmd'][1] == 'set' and r.outtext is not None and e2e.sh_digest(r.outtext) != e2e.sh_digest(head + forms[2]):
            ctx.violation('impl-violation', input=j['text'], options=j['opts'], command=j['cmd'], output=r.outtext,
                          observed='the run stopped before the simplification that only a second round can make',
                          expected='(assert (and a b c)): merging with the child becomes possible once the double negation is gone')
    ctx.assumptions += ['exact option strings (argparse prefix abbreviations are not modelled)',
                        '"declares something of a theory" = a declaration or definition command in which a sort of the theory occurs (as sort of the symbol, argument sort, parameter sort or field sort), or a datatype declaration']


def replay(d):
    print(json.dumps(d, indent=1)[:3000])
    return 1
