"""C02: the hierarchical/hybrid result is a fixed point of every enabled mutator."""
import json
import os
import shutil
import subprocess
import tempfile

import common
import e2e
import e2ejobs

FIX = os.path.join(common.VERIF, 'harness', 'fixpoint_check.py')


def fixpoint(text, outtext, opts, cmd, timeout=600):
    d = tempfile.mkdtemp(prefix='verif-fix-', dir=e2e.SCRATCH_ROOT)
    try:
        inf, outf, resf = os.path.join(d, 'in.smt2'), os.path.join(d, 'out.smt2'), os.path.join(d, 'res.json')
        open(inf, 'w').write(text)
        open(outf, 'w').write(outtext)
        os.mkdir(os.path.join(d, 'tmp'))
        env = dict(os.environ, PYTHONPATH='', TMPDIR=os.path.join(d, 'tmp'))
        env.pop('VERIF_CMDLOG', None)
        o = [x for x in opts if x not in ('--pretty-print', '--wrap-lines')]
        p = subprocess.run([common.PY, FIX, resf] + o + [inf, outf] + list(cmd), cwd=d, env=env, stdout=subprocess.PIPE,
                           stderr=subprocess.PIPE, text=True, timeout=timeout)
        if not os.path.exists(resf):
            return dict(error=p.stderr[-1500:])
        return json.load(open(resf))
    finally:
        shutil.rmtree(d, ignore_errors=True)


def run(ctx):
    ctx.rule = ('real ddSMT runs with strategy hierarchical/hybrid, -j 1..4, random delays, random subsets of enabled mutators; '
                'afterwards every proposal (local and global) of every enabled mutator on the final output is enumerated independently of ddSMT\'s Producer, '
                'compared with the tasks the Producer generates for the last pass, and the command is run on each; non-trivial = the final output still has proposals; distinct = distinct '
                '(input, options, command)')
    ctx.proof = common.prove('C02')
    rng = ctx.rng
    n = 80 if ctx.thorough else 18
    jobs = []
    for i in range(n):
        extra = []
        k = rng.random()
        if k < 0.2:
            extra = ['--disable-all', '--erase-node', '--constants', '--substitute-children']
        elif k < 0.35:
            extra = ['--no-core']
        elif k < 0.45:
            extra = ['--no-erase-node', '--no-binary-reduction']
        jobs.append(e2ejobs.job(rng, strategy=rng.choice(['hierarchical', 'hybrid']), extra=extra,
                                size='small' if i % 3 else 'medium'))
    # inputs in which the same constant or quoted symbol occurs at several places, under a command that insists on all
    # literal tokens being equal (occurrences kept in sync): only a step that changes all occurrences at once is accepted
    both = ['(set-logic ALL)\n(declare-const x Int)\n(declare-const y Int)\n(assert (= x 100))\n(assert (> (+ y 100) (* 100 x)))\n(check-sat)\n',
            '(set-logic ALL)\n(declare-const v (_ BitVec 8))\n(assert (= (bvadd v #x64) (bvmul #x64 v)))\n(assert (bvult #x64 v))\n(check-sat)\n',
            '(set-logic ALL)\n(declare-const |a b| Int)\n(assert (> |a b| (+ |a b| 7)))\n(assert (< |a b| 7))\n(check-sat)\n',
            '(set-logic ALL)\n(declare-const s String)\n(assert (= (str.++ s "abcdef") "abcdef"))\n(assert (str.contains s "abcdef"))\n(check-sat)\n',
            '(set-logic ALL)\n(declare-const r Real)\n(assert (> r 12.5))\n(assert (< (* 12.5 r) (+ r 12.5 12.5)))\n(check-sat)\n']
    for k in range(len(both) * (3 if ctx.thorough else 1)):
        jobs.append(dict(text=both[k % len(both)], opts=['--strategy', rng.choice(['hierarchical', 'hybrid']), '-j', str(rng.choice([1, 2]))],
                         cmd=[e2e.TOKPRED, 'sync', 'assert'], env={}))
    # adversarial commands that accept exactly the listed inputs: what a mutator proposes for a node must not depend on which
    # mutator asked for a sort first (a numeral is an index in one place and a term in another)
    acc = [('(declare-const z Int)\n(assert (bvnot ((_ extract 8 1) y)))\n(check-sat-assuming ((+ 8 z)))\n',
            ['(declare-const z Int)\n(assert ((_ extract 8 1) y))\n(check-sat-assuming ((+ 8 z)))\n',
             '(declare-const z Int)\n(assert ((_ extract 8 1) y))\n(check-sat-assuming (1))\n'], ['--strategy', 'hierarchical']),
           ('(declare-const z Int)\n(assert ((_ extract 8 1) y))\n(check-sat-assuming ((+ 16 z) (foo 5 16)))\n',
            ['(declare-const z Int)\n(assert ((_ extract 8 1) y))\n(check-sat-assuming ((+ 8 z) (foo 5 8)))\n',
             '(declare-const z Int)\n(assert ((_ extract 8 1) y))\n(check-sat-assuming (1 (foo 5 8)))\n'], ['--strategy', 'hybrid']),
           ('(declare-const z Int)\n(assert (bvnot ((_ extract 8 1) y)))\n(check-sat-assuming ((+ 8 z)))\n',
            ['(declare-const z Int)\n(assert ((_ extract 8 1) y))\n(check-sat-assuming ((+ 8 z)))\n',
             '(declare-const z Int)\n(assert ((_ extract 8 1) y))\n(check-sat-assuming ((+ 0 z)))\n'],
            ['--strategy', 'hierarchical', '--disable-all', '--constants', '--substitute-children'])]
    for text, others, opts in acc:
        jobs.append(dict(text=text, opts=opts + ['-j', '1'], cmd=[e2e.TOKPRED, 'set'] + [e2e.sh_digest(t) for t in [text] + others], env={}))
    for j in jobs:
        j['timeout'] = 600 if ctx.thorough else 240
        if not ctx.thorough and '--no-core' in j['opts']:
            j['opts'].remove('--no-core')      # without the shrinking core mutators runs get very long (thorough tier only)
    runs = e2e.run_many(jobs)
    import concurrent.futures
    todo = [(j, r) for j, r in zip(jobs, runs) if not r.hung and r.rc == 0 and r.outtext is not None]
    with concurrent.futures.ThreadPoolExecutor(max(2, common.NCPU // 2)) as ex:
        fres = list(ex.map(lambda jr: fixpoint(jr[0]['text'], jr[1].outtext, jr[0]['opts'], jr[0]['cmd']), todo))
    total = 0
    for (j, r), f in zip(todo, fres):
        if 'error' in f:
            ctx.disagree('fixpoint enumeration failed', input=j['text'][:500], detail=f['error'])
            continue
        total += f['proposals']
        ctx.case([j['text'], j['opts'], j['cmd'][1:]], f['proposals'] > 0,
                 sample=dict(options=j['opts'], command=j['cmd'][1:], output=r.outtext[:200], proposals_on_output=f['proposals'],
                             enabled=len(f['enabled'])) if f['proposals'] else None)
        ctx.count(j['opts'][1] + ' -j' + j['opts'][3])
        fresh = [a for a in f['accepted'] if 'introduce fresh variable' in a['mutator']]
        other = [a for a in f['accepted'] if a not in fresh]
        if fresh and not other:
            ctx.violation('impl-violation', finding_key='F18-fresh-variable-name-from-node-id', input=j['text'], options=j['opts'], command=j['cmd'],
                          output=r.outtext, observed=f'fresh-variable proposal accepted on the final output: {fresh[0]["candidate"][:200]}',
                          expected='no proposal accepted')
        f['accepted'] = other
        last = [e for e in r.ev('pass') if e['id'] == e['npasses'] - 1]
        if last and sorted(last[-1]['mutators']) != sorted(f['enabled']):
            ctx.violation('impl-violation', input=j['text'], options=j['opts'], command=j['cmd'], output=r.outtext,
                          observed=f"the last pass of the run used {sorted(last[-1]['mutators'])}, but the mutators enabled for this input and these options are "
                                   f"{sorted(f['enabled'])}: missing {sorted(set(f['enabled']) - set(last[-1]['mutators']))}",
                          expected='the final sweep covers every enabled mutator')
        if f.get('nmissing') or f.get('nextra'):
            ctx.disagree('candidates generated for the last pass vs the proposals of the enabled mutators', input=r.outtext[:800], options=j['opts'],
                         detail=f"ddSMT's Producer generates {f['produced']} tasks on this input, the enabled mutators propose {f['proposals']}; "
                                f"not generated: {f['missing'][:3]}; not proposed: {f['extra'][:3]}")
        if f['accepted']:
            ctx.violation('impl-violation', input=j['text'], options=j['opts'], command=j['cmd'], env=j['env'], output=r.outtext,
                          observed=f'{len(f["accepted"])} proposal(s) on the final output are accepted by the command: {f["accepted"][0]}',
                          expected='no single proposal of any enabled mutator on the final output is accepted',
                          how_to_replay='./check C02 --replay <file>')
    for j, r in zip(jobs, runs):
        if r.hung or r.rc != 0:
            ctx.notes.append(f'run ended abnormally (rc={r.rc}, hung={r.hung}): {j["opts"]}')
    ctx.count('proposals re-tested on final outputs', total)
    # TIE-H: every history is replayed in the extracted scheduler model (the model must also reach `finished`)
    import hiermon
    ok_, log_ = common.build_driver()
    if not ok_:
        raise common.BuildError(log_[-3000:])
    model = common.Model()
    built = [(j, hiermon.build(r.events)) for j, r in zip(jobs, runs) if not r.hung and r.rc == 0]
    good = [(j, b) for j, b in built if b is not None and 'error' not in b]
    for j, b in built:
        if b is not None and b.get('fresh_names'):
            ctx.count('histories not replayed: one candidate modulo fresh-variable names got two verdicts (F18; hashN commands look at the names)')
            continue
        if b is not None and 'error' in b:
            ctx.disagree('scheduler history (reconstruction)', input=j['text'][:600], options=j['opts'], detail=b['error'])
    nact = 0
    for (j, b), r_ in zip(good, model.batch([(80, b['arg']) for _, b in good])):
        nact += b['nactions']
        for msg in hiermon.compare(r_, b):
            ctx.disagree('scheduler history vs Model/SchedHier.v', input=j['text'][:800], options=j['opts'], command=j['cmd'], env=j['env'], detail=msg)
    ctx.count('histories replayed in the model', len(good))
    ctx.count('model actions replayed', nact)
    ctx.extra['runs'] = len(runs)
    ctx.assumptions += ['deterministic command; the enabled mutators are those determined from the original input (theory detection)',
                        'Pool delivers exactly one result per generated task']


def replay(d):
    r = e2e.run_ddsmt(d['input'], d['options'], d['command'], env=d.get('env') or {})
    f = fixpoint(d['input'], r.outtext or '', d['options'], d['command'])
    print('output:', r.outtext)
    print('fixpoint check:', f)
    return 1 if f.get('accepted') else 0
