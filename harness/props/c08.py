"""C08: the reader tokenises SMT-LIB text as the standard prescribes."""
import json

import common
import gen
from common import w_str, r_shapes


def lexemes_of(rng, depth=4):
    """A balanced lexeme sequence (0 = '(', 1 = ')', str = token)."""
    res = []
    n = rng.choice([1, 2, 3, 5])
    for _ in range(n):
        if rng.random() < 0.25:
            res.append(gen.gen_leaf(rng, liberal=False))
        else:
            res += gen.flat(tuple(gen.gen_shape(rng, depth, liberal=False) for _ in range(rng.choice([0, 1, 2, 3, 5]))))
    return res


def py_structure(lexemes):
    """Reference nesting (independent of both model and implementation)."""
    stack = [[]]
    for x in lexemes:
        if x == 0:
            stack.append([])
        elif x == 1:
            if len(stack) == 1:
                return None
            t = tuple(stack.pop())
            stack[-1].append(t)
        else:
            stack[-1].append(x)
    return stack[0] if len(stack) == 1 else None


def run(ctx):
    ctx.rule = ('(1) all ordered pairs of lexeme classes (parenthesis, atom, string literal, quoted symbol, comment) x every '
                'separator incl. none where legal x {top level, inside a list, first in a list, last before EOF}; (2) random '
                'balanced lexeme sequences with random white space (space, tab, LF, CR); non-trivial = contains a literal, '
                'quoted symbol or comment, or a touching pair; distinct = distinct texts')
    ctx.proof = common.prove('C08')
    ok, log = common.build_driver()
    if not ok:
        raise common.BuildError(log[-3000:])
    import impl
    model = common.Model()
    rng = ctx.rng
    cases = []
    for a, b, sep, where in gen.all_pairs_texts():
        if where == 'top':
            lex = [a, b]
        elif where == 'inside':
            lex = [0, 'h', a, b, 'z', 1]
        elif where == 'first':
            lex = [0, a, b, 1]
        else:
            lex = [0, 'h', 1, a, b]
        if py_structure(lex) is None:
            continue
        items = []
        for i, x in enumerate(lex):
            nxt = lex[i + 1] if i + 1 < len(lex) else None
            if x is a and nxt is b and i == lex.index(a):
                w = sep
            else:
                w = '' if nxt is None or gen.may_touch(x, nxt) and rng.random() < 0.5 else ' '
                if nxt is not None and not gen.may_touch(x, nxt):
                    w = rng.choice([' ', '\n', '\t', '\r'])
            items.append((x, w))
        # keep only legal renderings
        legal = all(w != '' or j + 1 >= len(items) or gen.may_touch(x, items[j + 1][0]) for j, (x, w) in enumerate(items))
        if legal:
            cases.append(('', items))
    ctx.count('systematic pairs', len(cases))
    N = 3000 if ctx.thorough else 400
    for _ in range(N):
        lex = lexemes_of(rng, rng.choice([2, 4, 6]))
        cases.append((gen.gen_ws(rng, False), gen.items_of(rng, lex)))
    calls = []
    for lead, items in cases:
        wi = gen.w_items(items)
        calls.append((7, wi))
        calls.append((6, wi))
        calls.append((1, w_str(gen.render(lead, items))))
    res = model.batch(calls)
    for k, (lead, items) in enumerate(cases):
        sepsok, struct, mparse = res[3 * k], res[3 * k + 1], res[3 * k + 2]
        text = gen.render(lead, items)
        lex = [x for x, _ in items]
        nt = any(isinstance(x, str) and x[:1] in '"|;' for x in lex) or any(w == '' for _, w in items[:-1])
        ctx.case(text, nt, sample=dict(text=text[:160]) if nt and k % 97 == 0 else None)
        if not sepsok:
            ctx.count('generator produced an item list rejected by seps_ok')
            continue
        want = py_structure(lex)
        spec = r_shapes(struct[1]) if struct[0] == 1 else None
        if spec != want:
            ctx.disagree('structure (spec) vs reference nesting', input=repr(lex)[:800], model=repr(spec)[:500], impl=repr(want)[:500])
        try:
            with common.time_limit(5):
                got = impl.parse_shapes(text)
        except Exception as e:  # noqa
            got = f'exception {type(e).__name__}: {e}'
        if got != want:
            ctx.violation('impl-violation', input=text, lexemes=json.dumps(lex), observed=repr(got)[:1500], expected=repr(want)[:1500],
                          how_to_replay='./check C08 --replay <file>')
        if r_shapes(mparse) != got:
            ctx.disagree('parse_smtlib', input=repr(text)[:800], impl=repr(got)[:600], model=repr(r_shapes(mparse))[:600])
    if ctx.thorough:
        shard = [c for c in calls[2:1500:15]]
        vm = model.vm_shard(shard, name='c08shard')
        oc = model.batch(shard)
        bad = sum(1 for a, b in zip(vm, oc) if a != b) + abs(len(vm) - len(oc))
        ctx.extra['vm_compute_shard'] = dict(cases=len(shard), differences_vs_extracted=bad)
        if bad:
            ctx.disagree('extraction vs vm_compute', differences=bad)
    ctx.assumptions += ['lexemes are separated by white space except where the standard lets them touch: next to a parenthesis, after a comment/quoted symbol, '
                        'after a string literal not followed by a double quote, and between an atom and a following comment, string literal or quoted symbol',
                        'comments are kept with their terminating line break (LF or CR)']


def replay(d):
    import impl
    got = impl.parse_shapes(d['input'])
    print('text    :', repr(d['input']))
    print('observed:', got)
    print('expected:', d['expected'])
    return 0 if repr(got) == d['expected'] else 1
