"""C03: minimisation always terminates: no mutation cycles, no-ops, hanging mutators."""
import json
import time

import common
import smtgen

SHRINKING = {'EraseNode', 'BinaryReduction', 'RemoveConstructor', 'RemoveDatatype', 'RemoveRecursiveFunction'}


def key_of(impl, exprs):
    return repr(impl.to_shapes(exprs))


def successors(impl, P, exprs, only=None, skip=()):
    """(mutator, result exprs) for every proposal that can be applied"""
    out = []
    for p in P.enumerate_proposals(exprs, only=only):
        if 'error' in p:
            if p['error'] == 'hang':
                out.append((p['cls'], 'HANG', p))
            continue
        if p['cls'] in skip:
            continue
        try:
            with common.time_limit(10):
                res = P.apply(exprs, p['simp'])
        except common.Hang:
            out.append((p['cls'], 'HANG', p))
            continue
        except Exception:  # noqa
            continue
        if isinstance(res, list):
            out.append((p['cls'], res, p))
    return out


def toks_of(impl, exprs):
    import gen
    out = []
    for sh in impl.to_shapes(exprs):
        out += [x for x in gen.flat(sh)]
    return out


def find_return(impl, P, start, target_key, target_toks, max_depth=6, max_nodes=250):
    """Guided search for a chain of SHRINKING proposals leading from `start` back to the input with key `target_key`
    (used after a growing proposal: grow-then-shrink cycles such as EliminateVariable followed by ReplaceByChild)."""
    import collections
    need = collections.Counter(map(str, target_toks))
    nodes = [0]

    def dfs(cur, chain, depth):
        if nodes[0] > max_nodes or depth > max_depth:
            return None
        cur_size = len(toks_of(impl, cur))
        cands = []
        for cls, res, p in successors(impl, P, cur):
            if res == 'HANG' or not isinstance(res, list):
                continue
            nodes[0] += 1
            k = key_of(impl, res)
            if k == target_key:
                return chain + [cls]
            tk = toks_of(impl, res)
            if len(tk) >= cur_size or len(tk) < len(target_toks):
                continue
            have = collections.Counter(map(str, tk))
            if any(have[t] < c for t, c in need.items()):
                continue
            cands.append((len(tk), cls, res))
        cands.sort(key=lambda x: x[0])
        for _, cls, res in cands[:5]:
            try:
                res = impl.nodes.reduplicate(res)
            except Exception:  # noqa
                continue
            r = dfs(res, chain + [cls], depth + 1)
            if r:
                return r
        return None
    return dfs(start, [], 1)


FAMILY_RBV = 'cycle:ReplaceByVariable-reintroduces-eliminated-variable'
ELIMINATORS = {'EliminateVariable', 'LetSubstitution', 'SimplifyQuotedSymbols'}


def reintroduces(impl, inp, cls, p):
    """the step p on the input inp is ReplaceByVariable putting in a variable that occurs in inp only where it is
    declared or bound (another mutator has eliminated it): the call site of the known family of cycles"""
    if cls != 'ReplaceByVariable' or not isinstance(p, dict) or 'simp' not in p:
        return False
    vals = [v for v in p['simp'].substs.values() if v is not None]
    if len(vals) != 1 or not vals[0].is_leaf():
        return False
    name = vals[0].data
    # occurrences apart from the places where the name is declared or bound
    impl.smtlib.collect_information(inp)
    return not any(n.is_leaf() and n.data == name and not impl.smtlib.is_definition_node(n) for n in impl.nodes.dfs(inp))


FAMILY_FP = 'cycle:Constants-restores-fp-literal'


def restores_fp(impl, cls, p):
    """the step p is Constants replacing a whole (fp ...) literal (one whose field another step has changed) by a default
    constant: the call site of the known family of cycles through NaN and the infinities"""
    if cls != 'Constants' or not isinstance(p, dict) or 'node' not in p:
        return False
    n = p['node']
    return (not n.is_leaf()) and len(n) > 0 and n[0].is_leaf() and n[0].data == 'fp'


def search_cycles(impl, P, exprs, depth, budget, rng, third=0.15):
    """Bounded search (a search, not a proof) for no-ops and short cycles from exprs. Returns list of findings."""
    findings = []
    k0 = key_of(impl, exprs)
    t0 = time.time()
    lvl1 = successors(impl, P, exprs)
    stats = dict(proposals=len(lvl1), explored=0)
    for cls, res, p in lvl1:
        if res == 'HANG':
            findings.append(dict(kind='hang', chain=[cls], node=str(p['node'])[:200]))
            continue
        if res is exprs or key_of(impl, res) == k0:
            findings.append(dict(kind='no-op', chain=[cls], node=str(p['node'])[:200]))
    # grow-then-shrink: after a proposal that makes the input larger, look for a chain of shrinking proposals back
    base_toks = toks_of(impl, exprs)
    grow = [(c, r) for c, r, _ in lvl1 if r != 'HANG' and isinstance(r, list) and len(toks_of(impl, r)) > len(base_toks)]
    for cls1, r1 in grow[:8]:
        if time.time() - t0 > 25:
            break
        try:
            back = find_return(impl, P, impl.nodes.reduplicate(r1), k0, base_toks)
        except Exception:  # noqa
            back = None
        if back:
            findings.append(dict(kind=f'{1 + len(back)}-cycle', chain=[cls1] + back, via=impl.render(r1, 'default')[:600]))
    if depth < 2:
        return findings, stats
    cands = [(c, r, p_) for c, r, p_ in lvl1 if r != 'HANG' and c not in SHRINKING and key_of(impl, r) != k0]
    rng.shuffle(cands)
    for cls1, r1, p1 in cands[:budget]:
        try:
            r1 = impl.nodes.reduplicate(r1)
            lvl2 = successors(impl, P, r1, skip=SHRINKING)
        except Exception:  # noqa
            continue
        stats['explored'] += len(lvl2)
        k1 = key_of(impl, r1)
        for cls2, r2, p2 in lvl2:
            if r2 == 'HANG':
                continue
            k2 = key_of(impl, r2)
            if k2 == k0:
                findings.append(dict(kind='2-cycle', chain=[cls1, cls2], via=impl.render(r1, 'default')[:600],
                                     reintro=reintroduces(impl, exprs, cls1, p1) or reintroduces(impl, r1, cls2, p2),
                                     fp=restores_fp(impl, cls1, p1) or restores_fp(impl, cls2, p2)))
            elif depth >= 3 and k2 != k1 and time.time() - t0 < 20 and rng.random() < third:
                try:
                    r2 = impl.nodes.reduplicate(r2)
                    for cls3, r3, p3 in successors(impl, P, r2, skip=SHRINKING):
                        stats['explored'] += 1
                        if r3 != 'HANG' and key_of(impl, r3) == k0:
                            findings.append(dict(kind='3-cycle', chain=[cls1, cls2, cls3], via=impl.render(r1, 'default')[:400],
                                                 reintro=reintroduces(impl, exprs, cls1, p1) or reintroduces(impl, r1, cls2, p2) or reintroduces(impl, r2, cls3, p3),
                                                 fp=restores_fp(impl, cls1, p1) or restores_fp(impl, cls2, p2) or restores_fp(impl, cls3, p3)))
                except Exception:  # noqa
                    pass
    return findings, stats


def run(ctx):
    ctx.rule = ('(search, not a proof) from generated well-sorted inputs (typed generator + one targeted instance per mutator class): '
                'every proposal is applied (no-op = result equals the input; hang = no proposal within the time limit); for non-shrinking '
                'proposals the proposals of the result are applied again (2-cycles, sampled 3-cycles); plus real runs with --check-loops '
                'and adversarial hash-based commands under a watchdog; non-trivial = input with >= 10 proposals; distinct = distinct inputs')
    ctx.proof = common.prove('C03')
    import impl
    import proposals as P
    import instances
    import e2e
    import e2ejobs
    rng = ctx.rng
    inputs = []
    for cls in instances.classes():
        for _ in range(2 if ctx.thorough else 1):
            r = instances.make(rng, cls)
            if r is not None:
                inputs.append((cls, r[0]))
    for _ in range(30 if ctx.thorough else 10):
        g, cmds = smtgen.gen_script(rng, nasserts=rng.choice([1, 2]), depth=2)
        inputs.append(('random', smtgen.script_text(cmds)))
    # hand-written seeds around known cycle shapes (kept in the corpus so a regression is reported again)
    inputs += [('corpus', '(set-logic ALL)\n(declare-const x Int)\n(declare-const y Int)\n(assert (= x 0))\n(assert (> y 0))\n(check-sat)\n'),
               ('corpus', '(set-logic ALL)\n(declare-datatype Color ((red) (green)))\n(declare-const x Color)\n(declare-fun p (Color) Bool)\n(assert (p x))\n(assert (p red))\n(check-sat)\n'),
               ('corpus', '(set-logic ALL)\n(define-fun g10 ((p8 Int)) Int (- 1))\n(assert (= (g10 10) 1))\n(check-sat)\n'),
               ('corpus', '(set-logic ALL)\n(declare-const a Int)\n(assert (let ((x (+ x 1))) (> x a)))\n(check-sat)\n'),
               ('corpus', '(set-logic ALL)\n(declare-const x Int)\n(assert (= x (+ 1 (* 2 x))))\n(check-sat)\n'),
               ('corpus', '(set-logic ALL)\n(declare-const y5 (Array Int Bool))\n(declare-const u7 (Array Int Bool))\n(assert (= y5 u7))\n(check-sat)\n'),
               ('corpus', '(set-logic ALL)\n(declare-const b (_ BitVec 4))\n(declare-const c (_ BitVec 4))\n(assert (= b (bvadd c (bvmul b c))))\n(check-sat)\n'),
               # definitions that refer to themselves or to each other (not legal SMT-LIB, but inputs all the same)
               ('corpus', '(set-logic ALL)\n(define-fun f () Int g)\n(define-fun g () Int f)\n(assert (= f 0))\n(check-sat)\n'),
               ('corpus', '(set-logic ALL)\n(define-fun f ((x Int)) Int (+ 1 (f x)))\n(assert (= (f 1) 0))\n(check-sat)\n'),
               ('corpus', '(set-logic ALL)\n(define-fun w () (_ BitVec 8) ((_ zero_extend 0) w))\n(assert (= w #x00))\n(check-sat)\n'),
               # further cycles reported by seeded-change agents (known findings): a let variable that shadows a declared constant;
               # a quoted and an unquoted spelling of one name, both declared; a damaged (fp ...) literal
               ('corpus', '(set-logic ALL)\n(declare-const x Int)\n(declare-const y Int)\n(assert (let ((x (+ y 1))) (> x 0)))\n(check-sat)\n'),
               ('corpus', '(set-logic ALL)\n(declare-const a Int)\n(declare-const |a| Int)\n(assert (> |a| 0))\n(check-sat)\n'),
               ('corpus', '(set-logic ALL)\n(declare-const f (_ FloatingPoint 5 11))\n(assert (fp.isNaN (fp (_ bv0 1) (_ bv0 5) (_ bv0 10))))\n(check-sat)\n'),
               ('corpus', '(set-logic ALL)\n(declare-const x Int)\n(declare-const y Int)\n(assert (= x (+ y 1)))\n(check-sat)\n'),
               # a parallel let whose bound terms mention each other (swap): substituting one must not enable the other for ever
               ('corpus', '(set-logic ALL)\n(declare-const a Int)\n(declare-const b Int)\n(assert (let ((a b) (b a)) (< b b)))\n(check-sat)\n'),
               ('corpus', '(set-logic ALL)\n(declare-const p Bool)\n(declare-const q Bool)\n(assert (let ((p q) (q p)) (and q p)))\n(check-sat)\n'),
               # cycles through three mutators reported by a seeded-change agent (known findings)
               ('corpus', '(set-logic ALL)\n(declare-const x Int)\n(declare-const y Int)\n(declare-const z Int)\n(assert (= (+ y z) x))\n(check-sat)\n'),
               ('corpus', '(set-logic ALL)\n(declare-const a Int)\n(declare-const b Int)\n(assert (= (+ a b) (+ a b)))\n(check-sat)\n'),
               # a reduced-bit-width definition in terms of a definition that refers to itself (F74): merging must not go on for ever,
               # nor propose the input itself
               ('corpus', '(set-logic ALL)\n(define-fun a () (_ BitVec 4) ((_ zero_extend 0) a))\n(define-fun b () (_ BitVec 4) ((_ zero_extend 0) a))\n(assert (= b #x0))\n(check-sat)\n'),
               ('corpus', '(set-logic ALL)\n(define-fun a () (_ BitVec 4) ((_ zero_extend 2) a))\n(define-fun b () (_ BitVec 4) ((_ zero_extend 1) a))\n(assert (= b #x0))\n(check-sat)\n'),
               # NaN as a literal: its exponent field is no default constant of its own sort (known finding cycle:Constants)
               ('corpus', '(set-logic ALL)\n(declare-const f (_ FloatingPoint 5 11))\n(assert (fp.isNaN (fp (_ bv0 1) (_ bv31 5) (_ bv1 10))))\n(check-sat)\n'),
               # a definition that is not recursive itself but refers to one that is (the recursion check must not loop on it);
               # a parameter named like its function
               ('corpus', '(set-logic ALL)\n(declare-const y Int)\n(define-fun g () Int (+ g 1))\n(define-fun f () Int (+ g 2))\n(assert (> (+ f y) 0))\n(check-sat)\n'),
               ('corpus', '(set-logic ALL)\n(declare-const y Int)\n(define-fun a ((a Int)) Int (+ a 1))\n(define-fun f ((x Int)) Int (* 2 (a x)))\n(assert (> (f y) 0))\n(check-sat)\n'),
               ('corpus', '(set-logic ALL)\n(define-fun h1 () Int h2)\n(define-fun h2 () Int h3)\n(define-fun h3 () Int h2)\n(define-fun k () Int (+ h1 h1 h1))\n(assert (> k 0))\n(check-sat)\n')]
    budget = 24 if ctx.thorough else 12
    tot = dict(proposals=0, explored=0)
    for cls, text in inputs:
        exprs = impl.parse(text)
        t0 = time.time()
        if cls == 'corpus':
            # hand-written seeds are small: every non-shrinking first step, every second step, every third step
            findings, stats = search_cycles(impl, P, exprs, 3, 400, rng, third=1.0)
        else:
            findings, stats = search_cycles(impl, P, exprs, 3 if ctx.thorough else 2, budget, rng)
        tot['proposals'] += stats['proposals']
        tot['explored'] += stats['explored']
        ctx.case(text, stats['proposals'] >= 10, sample=dict(source=cls, proposals=stats['proposals'], second_level=stats['explored'])
                 if len(ctx.samples) < 4 and stats['explored'] else None)
        seen = set()
        for f in findings:
            sig = (f['kind'], tuple(f['chain']))
            if sig in seen:
                continue
            seen.add(sig)
            ctx.violation('impl-violation', input=text, finding=f['kind'], chain=f['chain'], detail=f.get('via') or f.get('node'),
                          observed=f"{f['kind']} by {' -> '.join(f['chain'])}",
                          expected='no proposal leaves the input unchanged, no chain of proposals leads back to an input already visited, every proposal is delivered in bounded time',
                          finding_key=(FAMILY_RBV if f.get('reintro') and ELIMINATORS & set(f['chain']) else FAMILY_FP if f.get('fp') else 'cycle:' + '+'.join(sorted(set(f['chain'])))) if 'cycle' in f['kind'] else None,
                          how_to_replay='./check C03 --replay <file>')
    # delivery time: terms nested in one operand position, with an innermost operand whose sort is or is not inferable;
    # every filter/mutations call must return within a bound that does not depend exponentially on the depth
    def chain(op, depth, inner, first=True, extra='1'):
        t = inner
        for _ in range(depth):
            t = f'({op} {t} {extra})' if first else f'({op} {extra} {t})'
        return t
    D = 48 if ctx.thorough else 36
    nests = []
    for inner in ('(f x)', 'u', '(let ((k x)) k)', 'x'):
        for op, extra in (('+', '1'), ('-', ''), ('*', '2'), ('bvadd', '#b0001'), ('and', 'true'), ('ite c', 'x'), ('str.++', '"a"'), ('=', 'x')):
            for first in (True, False):
                nests.append('(set-logic ALL)\n(declare-fun f (Int) Int)\n(declare-const x Int)\n(declare-const c Bool)\n(assert (distinct '
                             + chain(op, D, inner, first, extra) + ' x))\n(check-sat)\n')
    rng.shuffle(nests)
    slow = 0
    for text in nests[:(40 if ctx.thorough else 16)]:
        exprs = impl.parse(text)
        t0 = time.time()
        n = 0
        for p_ in P.enumerate_proposals(exprs, time_limit=5):
            n += 1
            if p_.get('error') == 'hang':
                slow += 1
                ctx.violation('impl-violation', input=text, finding='hang', chain=[p_['cls']], detail=str(p_['node'])[:200],
                              observed=f"{p_['cls']} did not deliver its proposals for a node of a {D}-fold nested term within 5 s "
                                       f"({len(text)} bytes of input)",
                              expected='every proposal is delivered in time bounded by a small function of the input size')
                break
        ctx.case(['nest', text], n >= 10)
        ctx.count('deeply nested inputs (delivery time)')
        if time.time() - t0 > 60 and not slow:
            ctx.violation('impl-violation', input=text, finding='slow', chain=[], observed=f'enumerating the proposals of a {len(text)}-byte input took {time.time() - t0:.0f} s',
                          expected='time bounded by a small function of the input size')
    # memory: the text of a proposal must stay within a small multiple of the input text; indices and widths written with
    # few digits may stand for huge numbers
    N = 4000000
    big = ('(set-logic ALL)\n(declare-const b (_ BitVec 1))\n(declare-const i Int)\n'
           f'(assert (= ((_ sign_extend {N}) #b1) ((_ zero_extend {N}) b)))\n(assert (= (_ bv5 {N}) ((_ repeat {N}) b)))\n'
           f'(assert (= ((_ extract {N} 0) b) ((_ rotate_left {N}) b)))\n(assert (> (* i {N}{N}{N}) (+ i 1e{N})))\n'
           f'(assert (= ((_ int2bv {N}) i) ((_ to_fp {N} {N}) b)))\n'
           f'(assert (= ((_ extract 0 0) (_ bv5 {N})) b))\n(declare-const fl (_ FloatingPoint {N}0 5))\n(assert (fp.isNaN fl))\n(check-sat)\n')
    exprs = impl.parse(big)
    blown = {}
    for p_ in P.enumerate_proposals(exprs, time_limit=20, mem=True):
        if p_.get('kind') == 'mem':
            # transient allocations count too: the proposal may be small although a huge intermediate value was built
            if p_['peak'] > 1000 * len(big):
                blown.setdefault(p_['cls'], f"{p_['peak']} bytes were allocated while the proposals for {str(p_['node'])[:60]} were computed")
            continue
        if 'error' in p_:
            if p_['error'] == 'hang':
                blown.setdefault(p_['cls'], f"no proposal within 20 s for {str(p_['node'])[:60]}")
            continue
        sz = sum(len(x.data) if x.is_leaf() else 0 for v in p_['simp'].substs.values() if v is not None for x in impl.nodes.dfs(v))
        if sz > 100 * len(big):
            blown.setdefault(p_['cls'], f"a proposal for {str(p_['node'])[:60]} has {sz} characters")
    ctx.case(['huge indices', big], True)
    for cls_, msg in sorted(blown.items()):
        ctx.violation('impl-violation', finding_key='blowup:' + cls_, input=big, finding='blowup', chain=[cls_],
                      observed=f'{cls_}: {msg} although the input has {len(big)} characters',
                      expected='time and memory bounded by a small function of the input size')
    ctx.count('first-level proposals', tot['proposals'])
    ctx.count('second/third-level proposals', tot['explored'])
    # real runs: whole-input revisits are reported by ddSMT's own --check-loops; non-termination by the watchdog
    jobs = []
    for k in range(40 if ctx.thorough else 10):
        j = e2ejobs.job(rng, size='small', extra=['--check-loops'])
        j['timeout'] = 300 if ctx.thorough else 100
        jobs.append(j)
    # one targeted instance per mutator class, with a command that only insists on one symbol of the instance: every
    # member of a would-be cycle through that symbol is accepted, so the real strategy walks into it (and --check-loops reports it)
    display = {}
    for _, cname, m in P.all_mutators():
        display[str(m)] = cname
        display['(global) ' + str(m)] = cname

    import re as _re

    class _Names(dict):
        # task names carry run-time parameters, e.g. 'substitute by existing variable (inc)', 'erase node (assert)'
        def get(self, name, default=None):
            for cand in (name, _re.sub(r' \([^()]*\)$', '', name)):
                if cand in self:
                    return self[cand]
            return default
    display = _Names(display)
    for cls in instances.classes():
        for _ in range(3 if ctx.thorough else 1):
            r_ = instances.make(rng, cls)
            if r_ is None:
                continue
            toks = [t for t in e2e.sh_tokens(smtgen.render_shape(r_[1].shape())) if t not in '()' and not t[0].isdigit() and t[0] not in '#"_' and len(t) > 1]
            names = [t for t in toks if any(ch.isdigit() for ch in t)] or toks      # generated symbols carry a number
            if not names:
                continue
            jobs.append(dict(text=r_[0], opts=['--strategy', 'hierarchical', '-j', '1', '--check-loops'], cmd=[e2e.TOKPRED, 'all', rng.choice(names)],
                             env={}, timeout=300 if ctx.thorough else 100))
    # a self-referential equality (occurs check of EliminateVariable) -- corpus
    jobs.append(dict(text='(set-logic ALL)\n(declare-const x Int)\n(assert (= x (+ 1 (* 2 x))))\n(check-sat)\n',
                     opts=['--strategy', 'hierarchical', '-j', '1', '--check-loops'], cmd=[e2e.TOKPRED, 'all', 'x', '='], env={}, timeout=100))
    # growth: a command that accepts everything, with the deleting mutators switched off, so that chains which only ever
    # grow the input (fresh variable -> narrower variable -> inlined -> fresh variable ...) are walked as far as they go
    GROW = '(set-logic ALL)\n(declare-const v (_ BitVec 4))\n(define-fun g ((p (_ BitVec 4))) (_ BitVec 4) (bvand p v))\n(assert (= (g v) v))\n(check-sat)\n'
    for strat in ('hierarchical', 'ddmin'):
        jobs.append(dict(text=GROW, opts=['--strategy', strat, '-j', '1', '--no-core'], cmd=[e2e.TOKPRED, 'all'], env={}, timeout=100))
    for k in range(16 if ctx.thorough else 4):
        j = e2ejobs.job(rng, size='small', strategy=rng.choice(['hierarchical', 'hierarchical', 'ddmin']), jobs=1, extra=['--no-core'])
        j['cmd'] = [e2e.TOKPRED, 'all']
        j['env'] = {}
        j['timeout'] = 300 if ctx.thorough else 100
        jobs.append(j)
    runs = e2e.run_many(jobs)
    for j, r in zip(jobs, runs):
        ctx.case(['run', j['text'], j['opts'], j['cmd'][1:]], len(r.ev('check')) >= 10)
        if '--no-core' in j['opts']:
            ctx.count('real runs with an accept-all command and --no-core')
        ctx.count('real runs with --check-loops')
        if r.hung:
            ctx.violation('impl-violation', input=j['text'], options=j['opts'], command=j['cmd'], env=j['env'],
                          observed=f'ddSMT did not terminate within {j["timeout"]} s ({len(r.ev("check"))} tests, {len(r.ev("write"))} adoptions so far)',
                          expected='finitely many tests')
        elif 'already been seen before' in r.stderr:
            # which mutators form the loop: the simplifications accepted between the two visits
            ws = [e['digest'] for e in r.ev('write')]
            names = [e['name'] for e in r.ev('consume') if e['success']]
            parsed = [e['digest'] for e in r.ev('parsed')][:1]
            seq = parsed + ws
            chain = None
            for b in range(len(seq) - 1, 0, -1):
                for a in range(b - 1, -1, -1):
                    if seq[a] == seq[b]:
                        chain = names[a:b]
                        break
                if chain is not None:
                    break
            classes_ = sorted(set(display.get(n, n) for n in (chain or names[-3:])))
            keys = ['cycle:' + '+'.join(classes_)]
            known_cycles = [k['key'] for k in ctx.known if k['key'].startswith('cycle:')]
            if keys[0] not in known_cycles and 'ReplaceByVariable' in classes_ and ELIMINATORS & set(classes_) and FAMILY_RBV in known_cycles:
                # the family of cycles in which ReplaceByVariable brings an eliminated variable back (any steps in between)
                keys = [FAMILY_RBV]
            if keys[0] not in known_cycles and 'Constants' in classes_ and FAMILY_FP in known_cycles and ('FloatingPoint' in j['text'] or 'Float' in j['text']):
                # Constants restores a NaN/infinity literal one of whose fields an earlier step has changed (any steps in between)
                keys = [FAMILY_FP]
            if keys[0] not in known_cycles:
                # a closed walk may interleave several independent known cycles (at different positions of the input): it is
                # explained by them if their mutator sets together are exactly the mutators of the walk
                import itertools
                for r_ in range(2, len(known_cycles) + 1):
                    for combo in itertools.combinations(known_cycles, r_):
                        if set().union(*[set(k[6:].split('+')) for k in combo]) == set(classes_):
                            keys = list(combo)
                            break
                    if len(keys) > 1:
                        break
            for key_ in keys[:-1]:
                ctx.violation('impl-violation', finding_key=key_, input=j['text'], options=j['opts'], command=j['cmd'], observed='(part of an interleaved closed walk)')
            ctx.violation('impl-violation', finding_key=keys[-1], input=j['text'], options=j['opts'], command=j['cmd'], env=j['env'],
                          chain=[display.get(n, n) for n in (chain or [])],
                          observed='an input was visited twice during one run (--check-loops) through ' + ' -> '.join(display.get(n, n) for n in (chain or ['?'])),
                          expected='no input is visited twice')
    ctx.assumptions += ['the cycle search is a bounded search (depth 2, sampled depth 3); it supports the theorems, it does not replace them',
                        'strategy loops terminate under a strictly decreasing measure on accepted inputs (theorem no_infinite_run); the measure itself '
                        'is proved only for the modelled mutators']


def replay(d):
    if d.get('options') and 'did not terminate' in str(d.get('observed')):
        r = e2e.run_ddsmt(d['input'], d['options'], d['command'], env=d.get('env') or {}, timeout=100)
        print('hung:', r.hung, 'tests:', len(r.ev('check')), 'adoptions:', len(r.ev('write')))
        return 1 if r.hung else 0
    import impl
    import proposals as P
    import random
    exprs = impl.parse(d['input'])
    f, st = search_cycles(impl, P, exprs, 3, 60, random.Random(0))
    for x in f:
        print(x['kind'], x['chain'])
    return 1 if f else 0
