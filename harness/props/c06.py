"""C06: the output file is a complete accepted input at every instant."""
import hashlib
import json
import os
import shutil
import signal
import subprocess
import tempfile
import threading
import time

import common
import e2e
import e2ejobs
import gen
from common import w_str, r_str


class Interrupt(Exception):
    pass


def probe_rewrite(impl, prev, new, mode, inject_at=None, flush=True):
    """Run nodeio.write_smtlib_to_file(out, new) on a file holding the rendering of prev, with builtins/os wrapped
    inside ddsmt.nodeio: every low-level event (open, write, close, replace, unlink) is recorded, the output path is
    read from disk after each of them, and KeyboardInterrupt is raised at event number inject_at."""
    import builtins
    nodeio = impl.nodeio
    d = tempfile.mkdtemp(prefix='verif-c06-', dir=e2e.SCRATCH_ROOT)
    out = os.path.join(d, 'out.smt2')
    state = dict(n=0, ops=[], snaps=[])
    old = (impl.ARGS.pretty_print, impl.ARGS.wrap_lines)
    impl.ARGS.pretty_print, impl.ARGS.wrap_lines = mode == 'pretty', mode == 'wrap'

    def read_out():
        try:
            with builtins.open(out, newline='') as f:
                return f.read()
        except FileNotFoundError:
            return None

    def event(op):
        state['ops'].append(op)
        state['snaps'].append(read_out())
        state['n'] += 1
        if inject_at is not None and state['n'] - 1 == inject_at:
            raise KeyboardInterrupt()

    class F:
        def __init__(self, f, is_out):
            self.f, self.is_out = f, is_out

        def write(self, s):
            r = self.f.write(s)
            if flush:
                self.f.flush()      # make every write a low-level write (the finest interleaving)
            event([6 if self.is_out else 1, w_str(s)])
            return r

        def __enter__(self):
            return self

        def __exit__(self, *a):
            self.f.close()
            event([7] if self.is_out else [2])
            return False

    def my_open(name, mode_='r', *a, **kw):
        f = builtins.open(name, mode_, *a, **kw)
        if 'w' in mode_:
            is_out = os.path.abspath(name) == os.path.abspath(out)
            event([5] if is_out else [0])
            return F(f, is_out)
        return f

    class OS:
        path = os.path

        @staticmethod
        def getpid():
            return os.getpid()

        @staticmethod
        def replace(a, b):
            os.replace(a, b)
            event([3])

        @staticmethod
        def unlink(a):
            os.unlink(a)
            event([4])

        def __getattr__(self, k):
            return getattr(os, k)
    try:
        if prev is not None:
            nodeio.write_smtlib_to_file(out, prev)
        prev_text = read_out()
        saved = (nodeio.__dict__.get('open'), nodeio.__dict__.get('os'))
        nodeio.open = my_open
        nodeio.os = OS()
        interrupted = False
        try:
            nodeio.write_smtlib_to_file(out, new)
        except KeyboardInterrupt:
            interrupted = True
        finally:
            if saved[0] is None:
                del nodeio.open
            else:
                nodeio.open = saved[0]
            nodeio.os = saved[1] if saved[1] is not None else os
        final = read_out()
        leftovers = [f for f in os.listdir(d) if f != 'out.smt2']
        return dict(prev_text=prev_text, ops=state['ops'], snaps=state['snaps'], final=final, leftovers=leftovers,
                    interrupted=interrupted, nevents=state['n'])
    finally:
        impl.ARGS.pretty_print, impl.ARGS.wrap_lines = old
        shutil.rmtree(d, ignore_errors=True)


def profile_rewrite(impl, prev, new, mode, outdir, inject_at=None):
    """Implementation-agnostic observation: sys.setprofile stops at every C-level call/return made while
    write_smtlib_to_file runs; the output path is read from disk at each stop (a concurrent reader at every instant
    between low-level operations) and KeyboardInterrupt can be raised at stop number inject_at."""
    import sys
    nodeio = impl.nodeio
    d = tempfile.mkdtemp(prefix='verif-c06p-', dir=outdir)
    out = os.path.join(d, 'out.smt2')
    old = (impl.ARGS.pretty_print, impl.ARGS.wrap_lines)
    impl.ARGS.pretty_print, impl.ARGS.wrap_lines = mode == 'pretty', mode == 'wrap'
    snaps = []
    state = dict(n=0, busy=False)

    def read_out():
        try:
            fd = os.open(out, os.O_RDONLY)
        except FileNotFoundError:
            return None
        try:
            data = b''
            while True:
                b = os.read(fd, 1 << 16)
                if not b:
                    break
                data += b
            return data.decode(errors='replace')
        finally:
            os.close(fd)

    def hook(frame, event, arg):
        if event not in ('c_call', 'c_return') or state['busy'] or not state.get('armed'):
            return
        state['busy'] = True
        try:
            snaps.append(read_out())
            state['n'] += 1
            if inject_at is not None and state['n'] - 1 == inject_at:
                raise KeyboardInterrupt()
        finally:
            state['busy'] = False
    try:
        if prev is not None:
            nodeio.write_smtlib_to_file(out, prev)
        prev_text = read_out()
        interrupted = False
        sys.setprofile(hook)
        try:
            state['armed'] = True
            nodeio.write_smtlib_to_file(out, new)
        except KeyboardInterrupt:
            interrupted = True
        finally:
            state['armed'] = False
            sys.setprofile(None)
        final = read_out()
        return dict(prev_text=prev_text, snaps=snaps, final=final, interrupted=interrupted, nstops=state['n'],
                    leftovers=[f for f in os.listdir(d) if f != 'out.smt2'])
    finally:
        impl.ARGS.pretty_print, impl.ARGS.wrap_lines = old
        shutil.rmtree(d, ignore_errors=True)


def polled_run(job, kill=None, after=None):
    """Real ddSMT run with a concurrent reader polling the output file; optional signal after `after` seconds."""
    d = tempfile.mkdtemp(prefix='verif-c06r-', dir=e2e.SCRATCH_ROOT)
    try:
        inf, outf, logdir, tmpd = os.path.join(d, 'in.smt2'), os.path.join(d, 'out.smt2'), os.path.join(d, 'log'), os.path.join(d, 'tmp')
        os.mkdir(logdir), os.mkdir(tmpd)
        open(inf, 'w').write(job['text'])
        env = dict(os.environ, PYTHONPATH='', TMPDIR=tmpd, VERIF_CMDLOG=os.path.join(d, 'cmdlog'), PYTHONHASHSEED='0')
        env.update(job.get('env') or {})
        p = subprocess.Popen([common.PY, e2e.LAUNCHER, logdir] + job['opts'] + [inf, outf] + job['cmd'], cwd=d, env=env,
                             stdout=subprocess.PIPE, stderr=subprocess.PIPE, text=True, start_new_session=True,
                             preexec_fn=lambda: signal.signal(signal.SIGINT, signal.SIG_DFL))
        snaps = {}
        stop = threading.Event()

        def poll():
            while not stop.is_set():
                try:
                    with open(outf, newline='') as f:
                        t = f.read()
                    snaps.setdefault(t, 0)
                    snaps[t] += 1
                except FileNotFoundError:
                    pass
        th = threading.Thread(target=poll)
        th.start()
        killed = False
        try:
            if kill is not None:
                try:
                    p.wait(timeout=after)
                except subprocess.TimeoutExpired:
                    if kill == signal.SIGKILL:
                        os.killpg(p.pid, signal.SIGKILL)
                    else:
                        p.send_signal(kill)
                    killed = True
            so, se = p.communicate(timeout=300)
        except subprocess.TimeoutExpired:
            os.killpg(p.pid, signal.SIGKILL)
            so, se = p.communicate()
        finally:
            stop.set()
            th.join()
        import glob
        events = []
        for fn in glob.glob(os.path.join(logdir, 'events-*.jsonl')):
            for line in open(fn):
                try:
                    events.append(json.loads(line))
                except Exception:  # noqa
                    pass
        events.sort(key=lambda x: x['t'])
        final = open(outf, newline='').read() if os.path.exists(outf) else None
        return dict(snaps=snaps, final=final, events=events, rc=p.returncode, stdout=so, stderr=se, killed=killed,
                    tmp_left=os.listdir(tmpd), dir_left=[f for f in os.listdir(d) if f.startswith('out.smt2.')],
                    input_ok=open(inf).read() == job['text'])
    finally:
        subprocess.run(['pkill', '-9', '-f', d], stdout=subprocess.DEVNULL, stderr=subprocess.DEVNULL)
        shutil.rmtree(d, ignore_errors=True)


def time_of(events, name):
    return next((e['t'] for e in events if e['ev'] == name), None)


def tok_digest(impl, text):
    toks = []
    for sh in impl.parse_shapes(text):
        toks += [('(' if x == 0 else ')' if x == 1 else x) for x in gen.flat(sh)]
    return hashlib.sha1('\x00'.join(e2e.norm_fresh(toks)).encode()).hexdigest()[:16]


def run(ctx):
    ctx.rule = ('(1) every rewrite of the output file (generated pairs previous/new input, three output formats) is executed with '
                'every low-level event observed: the output path is read from disk after each event, and KeyboardInterrupt is injected at '
                'EVERY event index; the observed operation history is replayed in the extracted protocol model; (2) real runs with a '
                'concurrent reader polling the output file, SIGKILL and SIGINT at random times; non-trivial = rewrite with >= 2 low-level '
                'writes / run with >= 2 written contents; distinct = distinct (previous, new, format, injection point) / runs')
    ctx.proof = common.prove('C06')
    ok, log = common.build_driver()
    if not ok:
        raise common.BuildError(log[-3000:])
    import impl
    from ddsmt import tmpfiles
    tmpfiles.init()          # as ddsmt_main does before any strategy runs
    model = common.Model()
    rng = ctx.rng
    npairs = 40 if ctx.thorough else 8
    calls, meta = [], []
    for k in range(npairs):
        prev = impl.from_shapes(gen.gen_shapes(rng, maxdepth=3) or [('a',)]) if k % 5 else None
        new = impl.from_shapes(gen.gen_shapes(rng, maxdepth=3) or [('b', 'c')])
        mode = ['default', 'pretty', 'wrap'][k % 3]
        base = probe_rewrite(impl, prev, new, mode)
        new_text = base['final']
        n = base['nevents']
        for inj in [None, 'buffered'] + list(range(n)):
            if inj == 'buffered':
                # CPython's own buffering (no flush per write): what a reader really sees at each event
                r = probe_rewrite(impl, prev, new, mode, flush=False)
            else:
                r = base if inj is None else probe_rewrite(impl, prev, new, mode, inject_at=inj)
            ctx.case(['rewrite', k, mode, inj], sum(1 for o in r['ops'] if o[0] in (1, 6)) >= 2,
                     sample=dict(format=mode, events=n, inject_at=inj, ops=[o[0] for o in r['ops']]) if inj == 2 and len(ctx.samples) < 3 else None)
            ctx.count('rewrites probed')
            problems = []
            allowed = {r['prev_text'], new_text}
            for i, s in enumerate(r['snaps']):
                if s not in allowed or (s is None and r['prev_text'] is not None):
                    problems.append(f'after low-level event {i} ({r["ops"][i][0]}) the output file holds {s!r:.80}: neither the previous nor the new complete text')
                    break
            if r['final'] not in allowed:
                problems.append(f'after the rewrite (interrupt at {inj}) the file holds {r["final"]!r:.80}')
            if isinstance(inj, int) and r['interrupted']:
                renamed = any(o[0] == 3 for o in r['ops'])
                if not renamed and r['final'] != r['prev_text']:
                    problems.append('interrupted before the replacement but the previous content is gone')
            if r['leftovers']:
                problems.append(f'temporary files left behind: {r["leftovers"]}')
            if problems:
                ctx.violation('impl-violation', input=json.dumps(dict(prev=None if prev is None else impl.to_shapes(prev), new=impl.to_shapes(new))),
                              format=mode, inject_at=inj, observed='; '.join(problems), ops=[o[0] for o in r['ops']],
                              expected='previous or new complete content at every instant; previous content after an interrupt; no temporary file left')
            # the protocol model on the same operation history
            if inj != 'buffered':
                calls.append((46, [[] if r['prev_text'] is None else [w_str(r['prev_text'])], r['ops']]))
                meta.append((r, mode, inj))
    # implementation-agnostic pass: stop at every C-level call/return; output also on another filesystem than $TMPDIR
    outdirs = [e2e.SCRATCH_ROOT] + (['/dev/shm'] if os.path.isdir('/dev/shm') and os.access('/dev/shm', os.W_OK) else [])
    nprof = 0
    for k in range(12 if ctx.thorough else 3):
        prev = impl.from_shapes(gen.gen_shapes(rng, maxdepth=3) or [('a',)])
        new = impl.from_shapes(gen.gen_shapes(rng, maxdepth=3) or [('b', 'c')])
        mode = ['default', 'pretty', 'wrap'][k % 3]
        for outdir in outdirs:
            base = profile_rewrite(impl, prev, new, mode, outdir)
            stops = list(range(base['nstops'])) if ctx.thorough or base['nstops'] <= 60 else sorted(rng.sample(range(base['nstops']), 60))
            for inj in [None] + stops:
                r = base if inj is None else profile_rewrite(impl, prev, new, mode, outdir, inject_at=inj)
                nprof += 1
                ctx.case(['profile', k, mode, outdir, inj], True)
                allowed = {r['prev_text'], base['final']}
                problems = []
                badsnap = next((s_ for s_ in r['snaps'] if s_ not in allowed), 'ok')
                if badsnap != 'ok':
                    problems.append(f'a reader between two low-level operations saw {badsnap!r:.80}: neither the previous nor the new complete text')
                if r['final'] not in allowed:
                    problems.append(f'after an interrupt at stop {inj} the file holds {r["final"]!r:.80}')
                if problems:
                    ctx.violation('impl-violation', input=json.dumps(dict(prev=impl.to_shapes(prev), new=impl.to_shapes(new))), format=mode,
                                  output_dir=outdir, inject_at=inj, observed='; '.join(problems),
                                  expected='previous or new complete content at every instant and after an interrupt')
                    break
    ctx.count('profile-hook observations', nprof)
    try:
        getattr(tmpfiles, '__TMPDIR').cleanup()
    except Exception:  # noqa
        pass
    res = model.batch(calls)
    for (r, mode, inj), got in zip(meta, res):
        want = [None if s is None else s for s in r['snaps']]
        mod = [None if w == [] else r_str(w[0]) for w in got]
        if mod != want:
            i = next((i for i, (a, b) in enumerate(zip(mod, want)) if a != b), -1)
            ctx.disagree('file protocol (history replay)', input=f'format {mode}, interrupt at {inj}, ops {[o[0] for o in r["ops"]]}',
                         impl=repr(want[i])[:200], model=repr(mod[i])[:200], at_event=i)
        if not inj and [o[0] for o in r['ops']][:1] != [0]:
            ctx.disagree('file protocol (operation sequence)', input=f'format {mode}', impl=[o[0] for o in r['ops']], model='open tmp; writes; close; rename')
    # ---- (2) real runs with a concurrent reader / signals
    nruns = 36 if ctx.thorough else 9
    jobs = [e2ejobs.job(rng, size='medium', jobs=rng.choice([1, 2, 4])) for _ in range(nruns)]
    # several parallel ddmin rounds with results still in flight when one is adopted
    wide = ('(set-logic ALL)\n(set-info :source "Z\u00fcrich \u03bb \U0001F600")\n' + ''.join(f'(declare-const v{k} Int)\n' for k in range(10))
            + ''.join(f'(assert (> (+ v{k % 10} {k + 2}) (* v{(k + 3) % 10} {k + 3})))\n' for k in range(14)) + '(check-sat)\n')
    for k in range(3):
        jobs[k * 3 + (k % 3)] = dict(text=wide, opts=['--strategy', 'ddmin', '-j', str(2 + k)], cmd=[e2e.TOKPRED, 'all', 'v1', 'v4', str(k + 5)], env={})
    for j in jobs:
        j['env']['VERIF_CMD_DELAY'] = '20'
    for k in (0, 1, 2) if not ctx.thorough else (0, 2, 5, 8, 11):
        jobs.append(dict(text=wide, opts=['--strategy', 'hierarchical', '-j', '4'], cmd=[e2e.TOKPRED, 'all', 'v1'],
                         env={'VERIF_CMD_DELAY': '30', 'VERIF_SLOW_ADOPT': '60'}))
    import concurrent.futures

    def one(kj):
        k, j = kj
        if k % 3 == 0:
            return polled_run(j)
        if k % 3 == 1:
            return polled_run(j, kill=signal.SIGKILL, after=rng.choice([0.6, 1.0, 1.5, 2.5]))
        return polled_run(j, kill=signal.SIGINT, after=rng.choice([0.8, 1.2, 2.0]))
    with concurrent.futures.ThreadPoolExecutor(5) as ex:
        results = list(ex.map(one, list(enumerate(jobs))))
    for k, (j, r) in enumerate(zip(jobs, results)):
        writes = [e for e in r['events'] if e['ev'] == 'write']
        done = [e for e in r['events'] if e['ev'] == 'write_done']
        wd = [w['digest'] for w in writes]
        kind = ['reader', 'SIGKILL', 'SIGINT'][k % 3]
        ctx.case(['run', kind, j['text'], j['opts']], len(writes) >= 2,
                 sample=dict(kind=kind, options=j['opts'], writes=len(writes), distinct_snapshots=len(r['snaps']), signalled=r['killed']) if len(writes) >= 2 and len(ctx.samples) < 6 else None)
        ctx.count(kind)
        ctx.count('reader snapshots', sum(r['snaps'].values()))
        problems = []
        for t in r['snaps']:
            try:
                dg = tok_digest(impl, t)
            except Exception:  # noqa
                dg = None
            if t.strip() == '' and not any(w['ntok'] == 0 for w in writes) or dg not in wd:
                problems.append(f'a concurrent reader saw {t!r:.100}, which is not the complete text of an accepted input')
                break
        if r['final'] is not None:
            dg = tok_digest(impl, r['final'])
            if dg not in wd:
                problems.append(f'the file left behind ({r["final"]!r:.80}) is not the complete text of an accepted input')
            elif kind != 'SIGKILL' and writes and dg != wd[-1] and not (kind == 'SIGINT' and len(done) < len(writes) and len(wd) > 1 and dg == wd[-2]):
                problems.append('the file left behind is not the last accepted input')
        elif done:
            problems.append('output file missing although a rewrite had completed')
        finished = any(e['ev'] == 'exit' and e.get('code') == 0 for e in r['events'])
        if kind == 'SIGINT' and r['killed'] and not (r['rc'] == 0 and finished and time_of(r['events'], 'strategy_end') is not None):
            if r['rc'] != 1 or '[ddsmt] interrupted' not in r['stdout']:
                problems.append(f'after SIGINT: exit status {r["rc"]}, stdout tail {r["stdout"][-100:]!r}')
            if r['tmp_left']:
                problems.append(f'temporary directory not removed after SIGINT: {r["tmp_left"]}')
            if r['dir_left']:
                problems.append(f'temporary output files left after SIGINT: {r["dir_left"]}')
        if kind == 'reader' and (r['tmp_left'] or r['dir_left']):
            problems.append(f'temporary files left after a normal exit: {r["tmp_left"] + r["dir_left"]}')
        if not r['input_ok']:
            problems.append('the input file was written to')
        problems += e2e.lag_problems(r['events'])
        # every rewrite carries the input adopted last (a result that arrives after another one was adopted is discarded, not written)
        class _R:
            events = r['events']; hung = False; rc = 0; stderr = ''; outtext = ''; cmdlog = []; input_unmodified = True
        problems += [m + ' (the output file does not hold the last accepted input)' for m in e2e.analyse(_R)['C05'] if m.startswith('wrote ')][:2]
        for msg in problems:
            ctx.violation('impl-violation', input=j['text'], options=j['opts'], command=j['cmd'], scenario=kind, observed=msg,
                          expected='complete accepted input at every instant and after interrupt/kill; temporary directory gone')
    ctx.assumptions += ['rename(2) is atomic and a reader sees a whole old or whole new file (OS behaviour, assumed)',
                        'in the probe every file.write is flushed, i.e. treated as one low-level write (finest interleaving)',
                        'SIGKILL timing and CPython buffering are runtime behaviour: sampled, not proved']


def replay(d):
    print(json.dumps(d, indent=1)[:2500])
    return 1
