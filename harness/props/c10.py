"""C10: runs exceeding the time or memory limit are rejected and never stall ddSMT."""
import json
import os
import subprocess
import time

import common
import e2e

FAULTY = os.path.join(common.VERIF, 'harness', 'cmds', 'faulty.sh')

PAIRS = [('h1', 'h2'), ('s1', 's2'), ('k1', 'k2'), ('a1', 'a2')]


def make_input(rng, which):
    """asserts for 'keep', filler and the chosen fault pairs, in random order"""
    items = ['keep'] + [f'pad{k}' for k in range(rng.choice([1, 2, 3]))]
    for a, b in which:
        items += [a, b]
    rng.shuffle(items)
    return '(set-logic ALL)\n' + ''.join(f'(assert {x})\n' for x in items) + '(check-sat)\n'


def faulty_content(text, mode=None):
    """the fault the command shows on this content (None = none); with a golden run that itself dies from SIGKILL (mode
    kill9) a candidate on which the command kills itself ends the same way as the golden run: that is a match, not a fault"""
    t = set(e2e.sh_tokens(text))
    if 'keep' not in t:
        return None
    for a, b in PAIRS:
        if a in t and b not in t:
            return None if (mode == 'kill9' and a == 'k1') else a
    return None


def surviving_children(pattern):
    p = subprocess.run(['pgrep', '-f', pattern], stdout=subprocess.PIPE, text=True)
    return [x for x in p.stdout.split() if x]


def run(ctx):
    ctx.rule = ('real ddSMT runs with a command that, depending on the candidate, sleeps forever, spins forever, allocates '
                'without bound or kills itself with SIGKILL; fault pairs placed at random positions of the input; strategies x -j 1..3 x '
                '{--timeout explicit, default timeout} x {--memout}; bug modes exit1 / kill9 (+--ignore-output) / hanging golden run; plus the '
                'golden-run match-string validation; non-trivial = at least one faulty candidate was tested; distinct = distinct (input, options, mode)')
    # TIE-T: the translated decision code and the facts about execute()
    import props.c09 as c09
    translated = c09.translate_step(ctx)
    ctx.proof = common.prove('C10')
    rng = ctx.rng
    jobs = []
    n = 40 if ctx.thorough else 10
    for i in range(n):
        which = rng.sample(PAIRS[:3], rng.choice([1, 2])) if i % 4 else [PAIRS[3]]
        if i % 3 == 2 and not any(a in ('h1', 's1') for a, _ in which):
            which = [rng.choice(PAIRS[:2])] + which[:1]      # SIGKILL-golden runs always meet a hanging/spinning candidate
        text = make_input(rng, which)
        strategy = rng.choice(['ddmin', 'hierarchical', 'hybrid'])
        j_ = rng.choice([1, 2, 3])
        mode = ['exit1', 'exit1', 'kill9'][i % 3]
        opts = ['--strategy', strategy, '-j', str(j_)]
        if mode == 'kill9':
            opts += ['--ignore-output']
        if which == [PAIRS[3]]:
            opts += ['--memout', '200', '--timeout', '20']
        elif rng.random() < 0.6:
            opts += ['--timeout', str(rng.choice([0.4, 0.7]))]
        # restrict the mutators so that the number of hanging candidates stays small
        opts += ['--disable-all', '--erase-node']
        jobs.append(dict(text=text, opts=opts, cmd=[FAULTY, mode], env={}, timeout=400, mode=mode, which=which))
    # cross-check command with faults (its time limit is derived from ITS golden run)
    for i in range(6 if ctx.thorough else 2):
        which = [PAIRS[i % 2]]
        text = make_input(rng, which)
        opts = ['--strategy', ['hierarchical', 'ddmin'][i % 2], '-j', str(1 + i % 2), '-c', FAULTY + ' exit1', '--disable-all', '--erase-node']
        if i % 3 == 2:
            opts += ['--timeout-cc', '0.5']
        jobs.append(dict(text=text, opts=opts, cmd=[e2e.TOKPRED, 'all', 'keep'], env={}, timeout=240, mode='exit1', which=which))
    # the DEFAULT time limit under every way of configuring the comparison (it is derived after the match strings were validated)
    for i, extra in enumerate([['--match-err', 'error'], ['--match-out', 'bug'], ['--match-err', 'error', '--match-out', 'bug'], ['--ignore-out'],
                               ['--ignore-err', '--match-out', 'bug']][:5 if ctx.thorough else 3]):
        which = [PAIRS[i % 2]]
        a_, b_ = which[0]
        # the guard of the fault comes first, so that it is erased while the fault is still there: a faulty candidate is certain
        text = '(set-logic ALL)\n' + ''.join(f'(assert {x})\n' for x in [b_, 'pad0', 'pad1', 'keep', a_, 'pad2']) + '(check-sat)\n'
        jobs.append(dict(text=text, opts=['--strategy', ['ddmin', 'hierarchical', 'hybrid'][i % 3], '-j', str(1 + i % 2)] + extra + ['--disable-all', '--erase-node'],
                         cmd=[FAULTY, 'err1'], env={}, timeout=150, mode='err1', which=which))
    # an INTEGER time limit (the CPU-time limit used to be the same number of seconds and fired together with it, F72): the golden
    # run dies from SIGKILL, the output is ignored, and a spinning candidate must be rejected every time, not only when the
    # wall clock happens to win
    sp = [p_ for p_ in PAIRS if p_[0] == 's1'][0]
    for i in range(6 if ctx.thorough else 3):
        text = '(set-logic ALL)\n' + ''.join(f'(assert {x})\n' for x in [sp[1], 'pad0', 'keep', sp[0], 'pad1']) + '(check-sat)\n'
        jobs.append(dict(text=text, opts=['--strategy', ['ddmin', 'hierarchical', 'hybrid'][i % 3], '-j', '1', '--timeout', '1', '--ignore-output', '--disable-all', '--erase-node'],
                         cmd=[FAULTY, 'kill9'], env={}, timeout=200, mode='kill9', which=[sp]))
    # mirror case: the golden run itself hangs (explicit timeout); candidates that die quickly must be rejected
    for i in range(4 if ctx.thorough else 1):
        text = make_input(rng, [PAIRS[2]])
        jobs.append(dict(text=text, opts=['--strategy', 'hierarchical', '-j', '2', '--timeout', '0.4', '--ignore-output', '--disable-all', '--erase-node'],
                         cmd=[FAULTY, 'hang'], env={}, timeout=400, mode='hang', which=[PAIRS[2]]))
    # the golden run itself exhausts the memory limit, and no time limit is given: --memout alone must stop it
    for i in range(2 if ctx.thorough else 1):
        text = make_input(rng, [])
        jobs.append(dict(text=text, opts=['--strategy', ['ddmin', 'hierarchical'][i % 2], '-j', str(1 + i), '--memout', '200', '--ignore-output', '--disable-all', '--erase-node'],
                         cmd=[FAULTY, 'alloc'], env={}, timeout=90, mode='alloc', which=[]))
    # the CPU-time limit behind the time limit: read back from a child what limit_resources sets.  If the soft limit is not
    # strictly above the time limit, a spinning command is stopped by the wall clock (exit None) or by the kernel depending on a
    # race; if it equals the hard limit, the kernel stops it with SIGKILL, which cannot be told from a golden run that died
    # from SIGKILL (F72)
    import resource
    import impl  # noqa: F401  (makes ddsmt importable)
    from ddsmt import checker as _checker
    if hasattr(resource, 'prlimit'):
        for T in (1, 0.4, 2.5, 7):
            child = subprocess.Popen(['sleep', '5'])
            try:
                _checker.limit_resources(T, child.pid)
                soft, hard = resource.prlimit(child.pid, resource.RLIMIT_CPU)
            finally:
                child.kill()
                child.wait()
            ctx.case(['cpu limit', T], True)
            ctx.count('CPU limits read back')
            if not (soft > T and (hard == resource.RLIM_INFINITY or soft < hard)):
                ctx.violation('impl-violation', input=f'time limit {T} s', observed=f'CPU-time limit of the command: soft {soft} s, hard {hard} s',
                              expected='soft limit strictly above the time limit (the wall clock decides alone) and below the hard limit (SIGXCPU, not SIGKILL)')
    t0 = time.time()
    # the time limits (explicit or default) are the subject here: no limits added by the harness
    runs = e2e.run_many([dict({k: v for k, v in j.items() if k not in ('mode', 'which')}, safe_limits=False) for j in jobs], workers=6)
    for j, r in zip(jobs, runs):
        checks = r.ev('check')
        golden = r.ev('golden')
        limit = golden[0]['timeout'] if golden else None
        wall = (r.events[-1]['t'] - r.events[0]['t']) / 1e9 if r.events else 0
        faulty_tests = sum(1 for ln in r.cmdlog if len(ln) > 1 and ln[1] != 'none')
        problems = []
        if j['mode'] == 'alloc' and golden and (golden[0].get('runtime') or 0) > 20:
            problems.append(f"the golden run ran for {golden[0]['runtime']:.0f} s under --memout 200 although the command reserves 1.5 GB at once: the memory limit was not in force")
        if r.hung:
            problems.append('ddSMT did not finish (stalled)')
        elif r.rc != 0:
            problems.append(f'exit status {r.rc}: {r.stderr[-300:]}')
        # no faulty candidate may ever be adopted / written
        for w in r.ev('write'):
            if w.get('toks') and j['mode'] != 'hang':
                f = faulty_content(' '.join(w['toks']), j['mode'])
                if f:
                    problems.append(f'a candidate on which the command {f}-faults was accepted and written: {" ".join(w["toks"])[:200]}')
                    break
        if r.outtext is not None:
            f = faulty_content(r.outtext, j['mode'])
            if j['mode'] != 'hang' and f:
                problems.append(f'the output file is a candidate on which the command {f}-faults (hang/spin/kill/alloc)')
            t = set(e2e.sh_tokens(r.outtext))
            if j['mode'] == 'hang' and 'keep' in t and 'k1' in t and 'k2' not in t:
                problems.append('golden run hangs, but a candidate on which the command is killed at once was accepted')
        if limit and checks and not r.hung:
            bound = len(checks) * (limit + 1.0) + 10
            if wall > bound:
                problems.append(f'running time {wall:.1f}s exceeds tests x limit = {bound:.1f}s')
        ctx.case([j['text'], j['opts'], j['mode']], faulty_tests > 0,
                 sample=dict(options=j['opts'], mode=j['mode'], faults=[a for a, _ in j['which']], tests=len(checks), faulty_tests=faulty_tests,
                             wall_s=round(wall, 1), limit=limit) if faulty_tests else None)
        ctx.count('faulty candidates tested', faulty_tests)
        ctx.count('mode ' + j['mode'])
        for a, _ in j['which']:
            ctx.count('fault ' + a)
        for msg in problems:
            ctx.violation('impl-violation', input=j['text'], options=j['opts'], command=j['cmd'], observed=msg,
                          expected='faulty candidates are rejected, the command is killed, ddSMT continues and finishes',
                          how_to_replay='./check C10 --replay <file>')
    left = surviving_children('cmds/faulty.sh')
    time.sleep(0.5)
    left = [p for p in left if p in surviving_children('cmds/faulty.sh')]
    if left:
        ctx.violation('impl-violation', input='(all runs of this check)', observed=f'command processes still alive after ddSMT exited: {left[:5]}',
                      expected='the command process is killed')
        subprocess.run(['pkill', '-9', '-f', 'cmds/faulty.sh'])
    # golden run without the configured match string: status 1 before any minimisation
    text = make_input(rng, [])
    cc = FAULTY + ' exit1'
    cch = FAULTY + ' hang'
    for extra, cmdmode in ((['--match-out', 'nosuchstring'], 'exit1'), (['--match-err', 'nosuchstring'], 'exit1'),
                           (['--match-out', 'bug', '--timeout', '0.3'], 'hang'),
                           # the same for the match strings of the cross-check command (its golden run may also time out)
                           (['-c', cc, '--match-out-cc', 'nosuchstring'], 'exit1'), (['-c', cc, '--match-err-cc', 'nosuchstring'], 'exit1'),
                           (['-c', cch, '--match-out-cc', 'bug', '--timeout-cc', '0.3'], 'exit1')):
        r = e2e.run_ddsmt(text, ['--strategy', 'hybrid'] + extra, [FAULTY, cmdmode], timeout=120, safe_limits=False)
        ctx.case(['golden-match', extra, cmdmode], True)
        ctx.count('golden match-string validation')
        if r.rc != 1 or r.ev('check') or 'Traceback' in r.stderr or r.outtext is not None:
            ctx.violation('impl-violation', input=text, options=extra, command=[FAULTY, cmdmode],
                          observed=f'rc={r.rc}, tests={len(r.ev("check"))}, traceback={"Traceback" in r.stderr}, stderr tail {r.stderr[-200:]!r}',
                          expected='one-line diagnostic, exit status 1, no test executed')
    ctx.extra['runs'] = len(runs) + 3
    ctx.assumptions += ['kernel enforcement of RLIMIT_CPU/RLIMIT_AS, pipe draining and kill/wait ordering are runtime behaviour the model assumes',
                        'proc.returncode is None right after kill() (the child has not been waited for): the timed-out record is (None, None, None)',
                        'only the direct child is killed (grandchildren of a shell wrapper are outside the property)']


def replay(d):
    r = e2e.run_ddsmt(d['input'], d['options'], d['command'], timeout=400, safe_limits=False)
    print('rc', r.rc, 'hung', r.hung, 'output', r.outtext)
    return 1 if (r.hung or r.rc != 0 or (r.outtext and faulty_content(r.outtext))) else 0
