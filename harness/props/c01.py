"""C01: the output file reproduces the golden behaviour."""
import json

import os

import common
import e2e
import e2ejobs


def compare_spec(golden, run, opts):
    """The documented comparison (C09) for (rc, out, err) triples."""
    io = '--ignore-output' in opts or '--ignore-out' in opts
    ie = '--ignore-output' in opts or '--ignore-err' in opts
    mo = opts[opts.index('--match-out') + 1] if '--match-out' in opts else None
    me = opts[opts.index('--match-err') + 1] if '--match-err' in opts else None
    if golden[0] != run[0]:
        return False
    if not io and not ((mo in run[1]) if mo else golden[1] == run[1]):
        return False
    if not ie and not ((me in run[2]) if me else golden[2] == run[2]):
        return False
    return True


def run(ctx):
    ctx.rule = ('real ddSMT runs on generated well-sorted inputs with token-level scripted commands over strategies '
                '{ddmin, hierarchical, hybrid} x -j 1..4 x {default, --pretty-print, --wrap-lines} x comparison options '
                '{none, --match-out, --ignore-output, --ignore-out, cross-check}; afterwards the command (and cross-check command) is '
                're-run on the output file; non-trivial = at least two contents were written; distinct = distinct (input, options, command)')
    ctx.proof = common.prove('C01')
    rng = ctx.rng
    n = 150 if ctx.thorough else 24
    fmts = [[], ['--pretty-print'], ['--wrap-lines']]
    cmps = [[], ['--match-out', 'bug'], ['--ignore-output'], ['--ignore-out'], ['CC']]
    jobs = []
    for i in range(n):
        cmp_ = cmps[i % len(cmps)] if i % 2 else rng.choice(cmps)
        j = e2ejobs.job(rng, fmt=fmts[i % 3], size='small' if i % 4 else 'medium')
        if cmp_ == ['CC']:
            # cross check: a second token-level command
            cc = e2ejobs.pick_predicate(rng, j['text'])
            j['opts'] = j['opts'] + ['-c', ' '.join(cc)]
            j['cc'] = cc
        else:
            j['opts'] = j['opts'] + cmp_
        j['timeout'] = 600 if ctx.thorough else 120
        jobs.append(j)
    tails = ['(assert (trigger', '"trigger', ') trigger', '(assert |trigger x', '(assert (f x)) ) (trigger']
    for k, tail in enumerate(tails if ctx.thorough else tails[:3]):
        text = '(set-logic ALL)\n(declare-const x Int)\n(assert (> x 0))\n(check-sat)\n' + tail
        jobs.append(dict(text=text, opts=['--strategy', ['ddmin', 'hierarchical', 'hybrid'][k % 3], '-j', str(1 + k % 2)] + fmts[k % 3],
                         cmd=[e2e.TOKPRED, 'all', 'trigger'] if 'trigger' in e2e.sh_tokens(text) else [e2e.TOKPRED, 'all', '"trigger'], env={}, timeout=120))
    # commands whose behaviour differs between candidates in line terminators only (CR LF / CR against LF)
    for k in range(16 if ctx.thorough else 4):
        j = e2ejobs.job(rng, fmt=fmts[k % 3], size='small', strategy=['ddmin', 'hierarchical', 'hybrid'][k % 3])
        j['cmd'] = [e2e.TOKPRED, ['bytes', 'eol', 'sup', 'eol'][k % 4]] + j['cmd'][2:]      # ... or is a superstring of the golden text      # ... or in one undecodable byte against its escaped spelling
        if k % 3 == 2 and j['cmd'][1] != 'bytes':
            # then stderr alone decides (mode bytes differs on stdout only: with stdout ignored every candidate would match
            # and the verdicts of the command log would say nothing about what was accepted)
            j['opts'] = j['opts'] + ['--ignore-out']
        j['timeout'] = 120
        jobs.append(j)
    # a cross-check program that has the SAME FILE NAME as the command but lives elsewhere and is another program
    # (two versions of one solver): ddSMT works on private copies of both, which must stay two programs
    import tempfile
    import shutil
    alt_dir = tempfile.mkdtemp(prefix='c01alt-')
    alt = os.path.join(alt_dir, os.path.basename(e2e.TOKPRED))
    open(alt, 'w').write(f'#!/bin/sh\n# looks at its first symbol only\nmode="$1"; shift; first="$1"; for last; do :; done\nexec {e2e.TOKPRED} "$mode" "$first" "$last"\n')
    os.chmod(alt, 0o755)
    for k in range(6 if ctx.thorough else 2):
        j = e2ejobs.job(rng, fmt=fmts[k % 3], size='small', strategy=['ddmin', 'hierarchical', 'hybrid'][k % 3])
        toks = sorted(set(t for t in e2e.sh_tokens(j['text']) if t not in '()' and t not in j['cmd']))
        if j['cmd'][1] != 'all' or len(toks) < 2:
            continue
        cc = [alt, 'all'] + rng.sample(toks, 2)
        j['opts'] = j['opts'] + ['-c', ' '.join(cc)]
        j['cc'] = cc
        j['timeout'] = 120
        jobs.append(j)
    runs = e2e.run_many([{k: v for k, v in j.items() if k != 'cc'} for j in jobs])
    for j, r in zip(jobs, runs):
        w = e2e.writes_of(r)
        ctx.case([j['text'], j['opts'], j['cmd'][1:]], len(w) >= 2,
                 sample=dict(options=j['opts'], command=j['cmd'][1:], writes=len(w), output=(r.outtext or '')[:120]) if len(w) >= 2 else None)
        ctx.count(' '.join(o for o in j['opts'] if o.startswith('--') and o != '--strategy') or 'default')
        if r.hung or r.rc != 0:
            ctx.notes.append(f'run ended abnormally (rc={r.rc}, hung={r.hung}): {j["opts"]}')
            continue
        P = e2e.analyse(r)
        problems = list(P['C01'])
        if r.outtext is not None:
            g = e2e.run_cmd_on(j['text'], j['cmd'])
            o = e2e.run_cmd_on(r.outtext, j['cmd'])
            if not compare_spec(g, o, j['opts']):
                problems.append(f'command on the output file gives {o}, golden run gave {g}: does not match under the configured comparison')
            if 'cc' in j:
                g2 = e2e.run_cmd_on(j['text'], j['cc'])
                o2 = e2e.run_cmd_on(r.outtext, j['cc'])
                if not compare_spec(g2, o2, []):
                    problems.append(f'cross-check command on the output file gives {o2}, its golden run gave {g2}')
            # the output file parses (with ddSMT's reader) to the tokens of the last accepted candidate
            last = [e for e in r.events if e['ev'] == 'write']
            if last:
                import impl
                import hashlib
                toks = []
                for sh in impl.parse_shapes(r.outtext):
                    toks += [('(' if x == 0 else ')' if x == 1 else x) for x in __import__('gen').flat(sh)]
                d = hashlib.sha1('\x00'.join(e2e.norm_fresh(toks)).encode()).hexdigest()[:16]
                if d != last[-1]['digest']:
                    problems.append('the output file does not parse back to the last accepted input')
        for msg in problems:
            ctx.violation('impl-violation', input=j['text'], options=j['opts'], command=j['cmd'], env=j['env'], output=r.outtext,
                          observed=msg, expected='output file reproduces the golden behaviour; tokens of an accepted candidate; input untouched',
                          how_to_replay='./check C01 --replay <file>')
    shutil.rmtree(alt_dir, ignore_errors=True)
    ctx.extra['runs'] = len(runs)
    ctx.assumptions += ['deterministic command whose behaviour depends on the token sequence only (property hypothesis)',
                        'candidates are lexically closed (C15) and re-duplication preserves shapes (C13)']


def replay(d):
    r = e2e.run_ddsmt(d['input'], d['options'], d['command'], env=d.get('env') or {})
    print('output:', r.outtext)
    g = e2e.run_cmd_on(d['input'], d['command'])
    o = e2e.run_cmd_on(r.outtext or '', d['command'])
    print('golden', g, 'on output', o)
    return 0 if compare_spec(g, o, d['options']) and not e2e.analyse(r)['C01'] else 1
