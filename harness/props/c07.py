"""C07: rendering and re-parsing is the identity, in every output mode."""
import json

import common
import gen
from common import w_shapes, r_shapes, w_str, r_str

MODES = [('check', 2), ('default', 3), ('pretty', 4), ('wrap', 5)]


def nontrivial(es):
    def lits(e):
        if isinstance(e, str):
            return e[:1] in '"|;'
        return any(lits(x) for x in e)

    def depth(e):
        if isinstance(e, str):
            return 0
        return 1 + max([depth(x) for x in e] or [0])
    return any(lits(e) or depth(e) >= 2 for e in es)


def verbatim(es, text):
    pos = 0
    for x in gen.flats(es):
        if isinstance(x, str) and x[:1] in '"|;':
            i = text.find(x, pos)
            if i < 0:
                return False
            pos = i + len(x)
    return True


def impl_property(impl, es):
    """Check the property itself on the implementation for the shape list es.
    Returns None if it holds, else a dict describing the failure."""
    exprs = impl.from_shapes(es)
    want = es
    toks = None
    for mode, _ in MODES:
        try:
            text = impl.render(exprs, mode)
            back = impl.parse_shapes(text)
        except Exception as e:  # noqa
            return dict(mode=mode, observed=f'exception {type(e).__name__}: {e}', expected='rendering and re-parsing succeed')
        if back != want:
            return dict(mode=mode, rendering=text, observed=repr(back)[:2000], expected=repr(want)[:2000])
        if not verbatim(want, text):
            return dict(mode=mode, rendering=text, observed='literal/comment not emitted verbatim', expected='verbatim')
        t = gen.flats(back)
        if toks is not None and t != toks:
            return dict(mode=mode, rendering=text, observed='token sequence differs between renderers', expected=repr(toks)[:1000])
        toks = t
    return None


def shrink(impl, es):
    """Greedy shrinking of a failing shape list."""
    def fails(x):
        try:
            return impl_property(impl, x) is not None
        except Exception:
            return True
    cur = list(es)
    changed = True
    while changed:
        changed = False
        for i in range(len(cur)):
            cand = cur[:i] + cur[i + 1:]
            if fails(cand):
                cur = cand
                changed = True
                break
        if changed:
            continue
        for i, e in enumerate(cur):
            if isinstance(e, tuple):
                subs = [e[:j] + e[j + 1:] for j in range(len(e))] + [c for c in e]
                for s in subs:
                    cand = cur[:i] + [s] + cur[i + 1:]
                    if fails(cand):
                        cur = cand
                        changed = True
                        break
            elif len(e) > 3:
                for s in (e[:1] + e[2:], e[:-2] + e[-1:]):
                    cand = cur[:i] + [s] + cur[i + 1:]
                    if fails(cand):
                        cur = cand
                        changed = True
                        break
            if changed:
                break
    return cur


def corpus_cases():
    return [
        ['x', 'y'],                                   # F3: top-level leaves merged in the checking file
        [('a', '; c\n', 'b')],                        # F4: inner comment swallowed by --wrap-lines
        [('assert', ('=', 'another-' + 'hyphenated-' * 9 + 'symbol', 'z' * 100, '"a  b   c' + ' d' * 50 + '"'))],
        [('; c\n', 'a')], ['"abc"', '|q s|'], [()], [((), ())], ['; top\n'],
        [('a', '"x ""y"" ; ( "', '|a\nb|')],
        [gen.deep_shape(150)],
    ]


def run(ctx):
    ctx.rule = ('shape lists from the structured generator (atoms incl. long/hyphenated/quote-containing, string '
                'literals, quoted symbols, comments, empty lists, nesting to depth 150) plus the parses of random '
                'texts; a case is non-trivial if it contains a literal/comment leaf or nesting depth >= 2; '
                'distinct = distinct canonical shape lists')
    ctx.proof = common.prove('C07')
    ok, log = common.build_driver()
    if not ok:
        raise common.BuildError(log[-3000:])
    import impl
    model = common.Model()
    rng = ctx.rng
    n = 4000 if ctx.thorough else 500
    cases = corpus_cases()
    while len(cases) < n:
        cases.append(gen.gen_shapes(rng, liberal=True, maxdepth=rng.choice([3, 6, 9])))
    # parses of random texts ("every parsed input")
    alphabet = ['(', ')', ' ', '\n', '\t', '\r', '"', '|', ';', 'a', 'b', '-', '""', 'x y', '()']
    ntext = 2000 if ctx.thorough else 300
    texts = []
    for _ in range(ntext):
        t = ''.join(rng.choice(alphabet) for _ in range(rng.choice([1, 3, 8, 20, 60])))
        texts.append(t)
    texts += ['a ; c', '; c', '(a ; c', '(a)\n; foo', ';', 'x;', '(a) ;\r']      # a comment ended by the end of input (F32)
    # 1. model wf check (generator validation) and model renderings
    calls = []
    for es in cases:
        calls.append((8, w_shapes(es)))
        for _, f in MODES:
            calls.append((f, w_shapes(es)))
    res = model.batch(calls)
    k = 0
    parse_calls = []
    parse_meta = []
    for es in cases:
        wfok = bool(res[k]); k += 1
        ctx.count('wf' if wfok else 'not-wf')
        exprs = impl.from_shapes(es)
        for mode, f in MODES:
            mtext = r_str(res[k]); k += 1
            try:
                itext = impl.render(exprs, mode)
            except Exception as e:  # noqa
                itext = f'<exception {type(e).__name__}>'
            if itext != mtext:
                ctx.disagree(f'renderer {mode}', input=repr(es)[:1500], impl=itext[:1500], model=mtext[:1500])
            parse_calls.append((1, w_str(itext)))
            parse_meta.append((es, mode, itext))
        ctx.case(es, nontrivial(es), sample=dict(shapes=repr(es)[:300]) if nontrivial(es) else None)
        for e in es:
            ctx.count('size<=3' if gen.shape_size(e) <= 3 else 'size<=20' if gen.shape_size(e) <= 20 else 'size>20')
        if wfok:
            bad = impl_property(impl, es)
            if bad:
                small = shrink(impl, es)
                bad2 = impl_property(impl, small) or bad
                ctx.violation('impl-violation', input=repr(small), input_json=json.dumps(small), **bad2,
                              how_to_replay='./check C07 --replay <this file>')
    for t in texts:
        parse_calls.append((1, w_str(t)))
        parse_meta.append((None, 'text', t))
    pres = model.batch(parse_calls)
    for (es, mode, text), w in zip(parse_meta, pres):
        m = r_shapes(w)
        try:
            i = impl.parse_shapes(text)
        except Exception as e:  # noqa
            i = f'<exception {type(e).__name__}>'
        if i != m:
            ctx.disagree('parse_smtlib', input=repr(text)[:1500], impl=repr(i)[:1500], model=repr(m)[:1500])
        if mode == 'text':
            ctx.case(['text', text], len(text) > 3)
            if isinstance(i, list):
                bad = impl_property(impl, i)
                if bad:
                    ctx.violation('impl-violation', input=repr(i), input_json=json.dumps(i), from_text=text, **bad,
                                  how_to_replay='./check C07 --replay <this file>')
    # (3) the executable's own reading and printing (--parser-test): the printed rendering must parse back to the parse of
    # the FILE's text -- line breaks inside literals, CR-ended comments, lexemes that touch
    import os
    import subprocess
    import tempfile
    import shutil
    files = ['(assert (= s "a\r\nb"))\r\n(declare-fun |x\ry| () Bool)\r\n', '; c1\r(assert true)\r(check-sat)\r', '(assert ; c\r true)\n',
             '(f x"(")\n(g a|b c| d)\n(h #b01"s")\n', '(set-info :source |a\r\nb|)\n; last', '"top" |q| ; c\n(a)']
    d = tempfile.mkdtemp(prefix='verif-c07-')
    try:
        pcalls, pmeta = [], []
        for k, t in enumerate(files):
            fn = os.path.join(d, f'f{k}.smt2')
            with open(fn, 'w', newline='') as f:
                f.write(t)
            for extra in ([], ['--pretty-print'], ['--wrap-lines']):
                p_ = subprocess.run([common.PY, os.path.join(common.REPO, 'bin', 'ddsmt'), '--parser-test'] + extra + [fn, os.path.join(d, 'out.smt2')],
                                    stdout=subprocess.PIPE, stderr=subprocess.PIPE, env=dict(os.environ, PYTHONPATH=''))
                printed = p_.stdout.decode('utf-8', 'surrogateescape')
                pcalls += [(1, w_str(t)), (1, w_str(printed))]
                pmeta.append((t, extra, printed, p_.returncode))
        pres = model.batch(pcalls)
        for k, (t, extra, printed, rc) in enumerate(pmeta):
            want, got = r_shapes(pres[2 * k]), r_shapes(pres[2 * k + 1])
            ctx.case(['parser-test', t, extra], True)
            ctx.count('--parser-test runs')
            if rc != 0 or got != want:
                ctx.violation('impl-violation', input=repr(t), input_json=json.dumps(want), mode='--parser-test ' + ' '.join(extra),
                              rendering=printed[:1500], observed=f'exit status {rc}; the printed text parses to {got!r:.600}', expected=f'{want!r:.600}')
    finally:
        shutil.rmtree(d, ignore_errors=True)
    if ctx.thorough:
        shard = [(f, w_shapes(es)) for es in cases[:120] for _, f in MODES[:1]] + \
                [(1, w_str(t)) for t in texts[:200]]
        vm = model.vm_shard(shard, name='c07shard')
        oc = model.batch(shard)
        bad = sum(1 for a, b in zip(vm, oc) if a != b)
        ctx.extra['vm_compute_shard'] = dict(cases=len(shard), differences_vs_extracted=bad)
        if bad or len(vm) != len(oc):
            ctx.disagree('extraction vs vm_compute', differences=bad)
    ctx.assumptions += [
        'input text is valid UTF-8 (Python str); characters are code points',
        'structural (recursive) models of the explicit-stack writers; tie = correspondence on generated trees',
    ]


def replay(d):
    import impl
    es = json.loads(d['input_json'])
    es = [tuple_of(e) for e in es]
    bad = impl_property(impl, es)
    print('input   :', repr(es))
    print('observed:', bad)
    return 1 if bad else 0


def tuple_of(e):
    if isinstance(e, str):
        return e
    return tuple(tuple_of(x) for x in e)
