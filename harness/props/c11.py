"""C11: applying a simplification changes exactly the designated subtrees."""
import json

import common
import gen
import nodecorr as nc
from nodecorr import w_node, w_nodes, w_onode, r_node, of_impl, canon, shape_of, ids_of

PREFIX = [('set-logic', 'QF_LIA'), ('set-info', ':status', 'sat'), ('set-option', ':x', 'y'), '; a header comment\n', '; another one\r']


def subtrees(v, acc, path=()):
    acc.append((path, v))
    if v[0] == 'T':
        for i, c in enumerate(v[2]):
            subtrees(c, acc, path + (i,))


def toks(v):
    if v[0] == 'L':
        return [v[2]]
    r = ['(']
    for c in v[2]:
        r += toks(c)
    return r + [')']


def spec_tokens(v, idk, sk, reached=None):
    """Token-level specification, independent of the model."""
    if v[1] in idk:
        if reached is not None:
            reached.add(v[1])
        r = idk[v[1]]
        return [] if r is None else toks(r)
    s = shape_of(v)
    if s in sk:
        r = sk[s]
        return [] if r is None else toks(r)
    if v[0] == 'L':
        return [v[2]]
    res = ['(']
    for c in v[2]:
        res += spec_tokens(c, idk, sk, reached)
    return res + [')']


def untouched(v, idk, sk, acc):
    """ids of maximal subtrees without designated node; returns True if v is clean."""
    if v[1] in idk or shape_of(v) in sk:
        return False
    if v[0] == 'L':
        return True
    flags = [untouched(c, idk, sk, acc) for c in v[2]]
    if all(flags):
        return True
    for c, f in zip(v[2], flags):
        if f:
            acc.append(c[1])
    return False


def gen_case(impl, rng):
    forest_shapes = []
    if rng.random() < 0.4:
        forest_shapes += rng.sample(PREFIX, rng.randint(1, 2))
    for _ in range(rng.choice([1, 2, 3, 4])):
        forest_shapes.append(nc.gen_small_shape(rng, rng.choice([1, 2, 3, 4])))
    if rng.random() < 0.35:
        # twins: one non-leaf shape at two (or three) positions -- an identity key designates ONE of them
        tw = nc.gen_small_shape(rng, rng.choice([2, 3]))
        if isinstance(tw, tuple) and tw:
            for _ in range(rng.choice([2, 2, 3])):
                forest_shapes.insert(rng.randrange(len(forest_shapes) + 1), rng.choice([tw, ('w', tw, 'k'), ('v', tw)]))
    if rng.random() < 0.2:
        forest_shapes.insert(rng.randrange(len(forest_shapes) + 1), ('set-info', ':late'))
    forest = impl.from_shapes(forest_shapes)
    vals = [of_impl(t) for t in forest]
    allsub = []
    for i, v in enumerate(vals):
        subtrees(v, allsub, (i,))
    idkeys = {}
    chosen = []
    for _ in range(rng.choice([0, 1, 1, 2, 3])):
        path, v = rng.choice(allsub)
        if any(path[:len(p)] == p or p[:len(path)] == path for p in chosen):
            continue
        chosen.append(path)
        k = rng.random()
        if k < 0.3:
            idkeys[v[1]] = None
        elif k < 0.5:
            idkeys[v[1]] = impl.from_shape(('wrap', shape_of(v), '1'))   # contains its own shape
        else:
            idkeys[v[1]] = nc.gen_tree(impl, rng, 2)
    skeys = {}
    for _ in range(rng.choice([0, 0, 1, 1, 2])):
        k = rng.random()
        if k < 0.6:
            key = rng.choice(nc.LEAVES)
        elif k < 0.9:
            key = shape_of(rng.choice(allsub)[1])
        else:
            key = nc.gen_small_shape(rng, 2)
        r = rng.random()
        if r < 0.2:
            val = None
        elif r < 0.55:
            val = impl.from_shape(('+', key, '1'))                        # contains its own key
        else:
            val = nc.gen_tree(impl, rng, 2)
        skeys[key] = val
    # cascades: a replacement turns an ancestor into (a term equal to) another key
    if rng.random() < 0.35:
        cands_ = [v for _, v in allsub if v[0] == 'T' and any(c[0] == 'L' for c in v[2])]
        if cands_:
            v = rng.choice(cands_)
            j = rng.choice([k for k, c in enumerate(v[2]) if c[0] == 'L'])
            new_leaf = rng.choice(nc.LEAVES)
            became = tuple(new_leaf if k == j else shape_of(c) for k, c in enumerate(v[2]))
            if rng.random() < 0.5:
                skeys[v[2][j][2]] = impl.from_shape(new_leaf)
            elif not any(v[2][j][1] == i for i in idkeys):
                idkeys[v[2][j][1]] = impl.from_shape(new_leaf)
            skeys[became] = rng.choice([None, impl.from_shape('z'), impl.from_shape(('h', 'z'))])
    if rng.random() < 0.15:
        # nested chain (not (not (not p))) with key (not (not p)) -> (not p)
        forest.append(impl.from_shape(('not', ('not', ('not', 'p')))))
        vals.append(of_impl(forest[-1]))
        skeys[('not', ('not', 'p'))] = impl.from_shape(('not', 'p'))
    # replacements that contain another structural key
    if skeys and idkeys and rng.random() < 0.5:
        i = rng.choice(list(idkeys))
        idkeys[i] = impl.from_shape(('g', rng.choice(list(skeys)), 'z'))
    # numerals that are spelled like node identities (of designated and of other nodes), placed BEFORE the designated nodes:
    # an identity key must never match a token
    if idkeys and rng.random() < 0.35:
        others = [v[1] for _, v in allsub]
        spelled = [str(k) for k in idkeys] + [str(rng.choice(others))]
        t = impl.from_shape(('ids',) + tuple(spelled))
        forest.insert(0, t)
        vals.insert(0, of_impl(t))
    return forest, vals, idkeys, skeys


def run(ctx):
    ctx.rule = ('forests (optionally with a set-logic/set-info prefix) with identity keys on pairwise non-nested nodes '
                '(replacement, deletion, replacement containing its own shape or a structural key) and structural keys '
                '(leaves, subtrees, absent; value possibly containing the key); non-trivial = at least one key designates '
                'a node of the forest; distinct = distinct canonical (forest shapes, keys)')
    ctx.proof = common.prove('C11')
    ok, log = common.build_driver()
    if not ok:
        raise common.BuildError(log[-3000:])
    import impl
    from ddsmt.mutator_utils import Simplification, apply_simp
    model = common.Model()
    rng = ctx.rng
    N = 3000 if ctx.thorough else 500
    calls, meta = [], []
    for it in range(N):
        forest, vals, idkeys, skeys = gen_case(impl, rng)
        idk_v = {k: (None if v is None else of_impl(v)) for k, v in idkeys.items()}
        sk_v = {k: (None if v is None else of_impl(v)) for k, v in skeys.items()}
        skey_nodes = {k: impl.from_shape(k) for k in skeys}
        wri = [[k, w_onode(v)] for k, v in idkeys.items()]
        wrs = [[w_node(skey_nodes[k]), w_onode(v)] for k, v in skeys.items()]
        hit = any(v[1] in idkeys or shape_of(v) in skeys for t in vals for _, v in _subs(t))
        ctx.count('hit' if hit else 'no-key-applies')
        ctx.count(f'idkeys={len(idkeys)}')
        ctx.count(f'skeys={len(skeys)}')
        mode = rng.choice(['list', 'list', 'apply', 'node'])
        ctx.count('op:' + mode)
        canon_case = [mode, [shape_of(v) for v in vals], sorted((str(k), None if v is None else repr(shape_of(v))) for k, v in idk_v.items()),
                      sorted((repr(k), None if v is None else repr(shape_of(v))) for k, v in sk_v.items())]
        ctx.case(canon_case, hit, sample=dict(op=mode, forest=repr([shape_of(v) for v in vals])[:200],
                                              id_keys=len(idkeys), structural_keys=repr(list(skeys))[:100]) if hit else None)
        repl = dict(idkeys)
        for k, v in skeys.items():
            repl[skey_nodes[k]] = v
        T = nc.counter(impl)
        fresh = []
        try:
          with common.time_limit(5):
            if mode == 'list':
                res = impl.nodes.substitute(forest, repl)
                same_obj = res is forest
                calls.append((20, [w_nodes(forest), wri, wrs, T]))
                calls.append((21, [w_nodes(forest), wri, wrs, T]))
            elif mode == 'apply':
                fresh = [impl.from_shape(('declare-const', f'v{j}', 'Int')) for j in range(rng.choice([0, 1, 2]))]
                T = nc.counter(impl)
                res = apply_simp(forest, Simplification(repl, fresh))
                same_obj = res is forest
                calls.append((22, [w_nodes(forest), wri, wrs, w_nodes(fresh), T]))
            else:
                res1 = impl.nodes.substitute(forest[0], repl)
                res = [] if res1 is None else [res1]
                same_obj = res1 is forest[0]
                calls.append((23, [w_node(forest[0]), wri, wrs, T]))
        except Exception as e:  # noqa
            ctx.violation('impl-violation', op=mode, input=json.dumps(canon_case), observed=f'exception {type(e).__name__}: {e}',
                          expected='a result')
            calls = calls[:len(meta)]
            if isinstance(e, common.Hang) and sum(1 for v in ctx.violations if 'Hang' in v.get('observed', '')) >= 3:
                break
            continue
        rv = [of_impl(t) for t in res]
        for _ in range(len(calls) - len(meta)):
            meta.append((mode, same_obj, canon(rv, T), T, canon_case))
        # --- the property itself, on the implementation
        after = [of_impl(t) for t in forest]
        problems = []
        if after != vals:
            problems.append('the input was modified')
        scope = vals if mode != 'node' else vals[:1]
        reached = set()
        want = [t for v in scope for t in spec_tokens(v, idk_v, sk_v, reached)]
        if mode == 'apply' and fresh and not same_obj:
            # declarations go after the set-logic/set-info prefix of the result
            pos = 0
            while pos < len(rv) and ((rv[pos][0] == 'L' and rv[pos][2].startswith(';')) or
                                     (rv[pos][0] == 'T' and rv[pos][2] and rv[pos][2][0][0] == 'L' and rv[pos][2][0][2] in ('set-info', 'set-logic'))):
                pos += 1          # (a header comment is a top-level leaf: the declarations must come after the set-logic that follows it)
            decl = [of_impl(f) for f in fresh]
            without = [x for x in rv if x not in decl]
            if rv[pos:pos + len(decl)] != decl:
                problems.append('declarations not inserted after the set-logic/set-info prefix')
            got = [t for v in without for t in toks(v)]
        else:
            got = [t for v in rv for t in toks(v)]
        if got != want:
            problems.append(f'tokens differ: got {got[:60]} want {want[:60]}')
        keep = []
        for v in scope:
            if untouched(v, idk_v, sk_v, keep):
                keep.append(v[1])
        out_ids = set(i for v in rv for i in ids_of(v))
        if hit and not set(keep) <= out_ids:
            problems.append('an untouched subtree lost its identity')
        if not hit and not same_obj:
            problems.append('no key applies but a different object was returned')
        for k, v in idkeys.items():
            if v is not None and k in reached and v.id not in out_ids and \
                    shape_of(of_impl(v)) not in [shape_of(x) for t in scope for _, x in _subs(t) if x[1] == k]:
                problems.append('an identity-keyed replacement was not inserted as given (object identity lost)')
        if problems:
            ctx.violation('impl-violation', op=mode, input=json.dumps(canon_case), observed='; '.join(problems)[:1500],
                          expected='exactly the designated subtrees replaced/deleted; everything else in place; input unmodified')
    res = model.batch(calls)
    for (mode, same_obj, want, T, cc), (f, arg), got in zip(meta, calls, res):
        if got == [-1]:
            ctx.disagree(f'substitute[{f}]', input=json.dumps(cc)[:1500], impl=repr(want)[:600], model='out of fuel / stuck')
            continue
        if f == 23:
            mv = [r_node(x) for x in got]
            ok_ = canon(mv, T) == want
        else:
            ch, nodes_w = got
            mv = [r_node(x) for x in nodes_w]
            ok_ = canon(mv, T) == want and (bool(ch) == (not same_obj))
        if not ok_:
            ctx.disagree(f'substitute[{f}]', input=json.dumps(cc)[:1500], impl=repr(want)[:600], model=repr(canon(mv, T))[:600])
    if ctx.thorough:
        shard = calls[:240:2]
        vm = model.vm_shard(shard, name='c11shard')
        oc = model.batch(shard)
        bad = sum(1 for a, b in zip(vm, oc) if a != b) + abs(len(vm) - len(oc))
        ctx.extra['vm_compute_shard'] = dict(cases=len(shard), differences_vs_extracted=bad)
        if bad:
            ctx.disagree('extraction vs vm_compute', differences=bad)
    ctx.assumptions += ['identity keys designate pairwise non-nested nodes of an input with pairwise distinct identities (C13)',
                        'no collision between the hash of an int key and the hash of a node (dict lookup)']


def _subs(v):
    acc = []
    subtrees(v, acc)
    return acc


def replay(d):
    print(json.dumps(d, indent=1)[:3000])
    return 1
