"""C12: tree equality, hashing, copying, pickling, traversal agree with structure."""
import copy
import json
import multiprocessing
import pickle

import common
import nodecorr as nc
from nodecorr import w_node, w_nodes, r_node, of_impl, canon, shape_of, ids_of


def _worker(payload):
    """Runs in a pool worker: receives trees, reports what it sees, sends back
    the trees and a modified tree."""
    import impl
    trees = payload
    seen = [(nc.of_impl(t), hash(t)) for t in trees]
    mod = impl.Node('wrapped', *trees)
    return seen, trees, mod


def spec_pre(v):
    res = [v[1]]
    if v[0] == 'T':
        for c in v[2]:
            res += spec_pre(c)
    return res


def spec_bfs(vs):
    res = []
    level = list(vs)
    while level:
        res += [v[1] for v in level]
        level = [c for v in level if v[0] == 'T' for c in v[2]]
    return res


def run(ctx):
    ctx.rule = ('pairs of trees (independent, deep copies, pickled copies, one-leaf/one-arity mutations, prefixes), trees '
                'for pickle/deepcopy in-process and through a fork pool, lists with max_depth in {None,0,1,2,3,-1} for '
                'dfs/bfs/counts; non-trivial = at least one non-leaf node with >= 2 children or a pair whose shapes differ '
                'in exactly one place; distinct = distinct canonical (operation, shapes)')
    ctx.proof = common.prove('C12')
    ok, log = common.build_driver()
    if not ok:
        raise common.BuildError(log[-3000:])
    import impl
    model = common.Model()
    rng = ctx.rng
    N = 2500 if ctx.thorough else 400

    def mutate(shape):
        if isinstance(shape, str):
            return rng.choice([shape + 'x', (), (shape,)])
        if not shape:
            return rng.choice(['a', ((),), ('a',)])
        i = rng.randrange(len(shape))
        k = rng.random()
        if k < 0.4:
            return shape[:i] + (mutate(shape[i]),) + shape[i + 1:]
        if k < 0.7:
            return shape[:i] + shape[i + 1:]
        return shape + (rng.choice(nc.LEAVES),)

    calls = []
    meta = []
    # --- equality / hash
    for _ in range(N):
        sa = nc.gen_small_shape(rng, rng.choice([1, 2, 3, 5]))
        kind = rng.choice(['indep', 'same', 'copy', 'pickle', 'mutant', 'mutant', 'shared'])
        a = impl.from_shape(sa)
        if kind == 'indep':
            b = impl.from_shape(nc.gen_small_shape(rng, 3))
        elif kind == 'same':
            b = impl.from_shape(sa)
        elif kind == 'copy':
            b = copy.deepcopy(a)
        elif kind == 'pickle':
            try:
                b = pickle.loads(pickle.dumps(a))
            except Exception as e:  # noqa
                ctx.violation('impl-violation', op='pickle', input=json.dumps(sa), observed=f'exception {type(e).__name__}: {e}',
                              expected='an equal tree with the same identities')
                continue
        elif kind == 'mutant':
            b = impl.from_shape(mutate(sa))
        else:  # b shares subtrees (same ids) with a
            if a.is_leaf() or not len(a):
                b = a
            else:
                ch = list(a.data)
                i = rng.randrange(len(ch))
                ch[i] = impl.from_shape(mutate(impl.to_shape(ch[i])) if rng.random() < 0.5 else impl.to_shape(ch[i]))
                b = impl.Node(*ch)
        sb = impl.to_shape(b)
        const_hash = rng.random() < 0.4
        if const_hash:
            # a legitimate world: the hash function is constant (forces the structural walk)
            for n in list(impl.nodes.dfs(a)) + list(impl.nodes.dfs(b)):
                n.hash = 1
            kind += '/const-hash'
        r = (a == b)
        r2 = (b == a)
        want = (sa == sb)
        ctx.count('eq:' + kind)
        nt = not isinstance(sa, str) and len(sa) >= 2
        ctx.case(['eq', sa, sb], nt, sample=dict(op='eq', a=repr(sa)[:150], b=repr(sb)[:150], equal=r) if nt else None)
        if r != want or r2 != want:
            ctx.violation('impl-violation', op='eq', input=json.dumps([sa, sb]), observed=f'a==b is {r}, b==a is {r2}',
                          expected=f'{want} (shapes {"equal" if want else "differ"})')
        if want and hash(a) != hash(b):
            ctx.violation('impl-violation', op='hash', input=json.dumps([sa, sb]), observed='equal trees, different hashes',
                          expected='equal hashes')
        calls.append((25 if const_hash else 10, [w_node(a), w_node(b)])); meta.append(('eq', r, (sa, sb)))
        calls.append((26 if const_hash else 11, [w_node(a), w_node(b)])); meta.append(('eq_sm', r, (sa, sb)))
    # --- pickle / deepcopy in process
    pool_payloads = []
    for _ in range(N // 2):
        a = nc.gen_tree(impl, rng, rng.choice([1, 3, 5]))
        va = of_impl(a)
        T = nc.counter(impl)
        try:
            b = pickle.loads(pickle.dumps(a))
        except Exception as e:  # noqa
            ctx.violation('impl-violation', op='pickle', input=json.dumps(shape_of(va)), observed=f'exception {type(e).__name__}: {e}',
                          expected='the same tree')
            continue
        vb = of_impl(b)
        nt = va[0] == 'T' and len(va[2]) >= 2
        ctx.case(['pickle', shape_of(va)], nt)
        if vb != va or hash(a) != hash(b) or nc.counter(impl) != T + nc.probe_cost(impl):
            ctx.violation('impl-violation', op='pickle', input=json.dumps(shape_of(va)), observed=repr(vb)[:800],
                          expected=repr(va)[:800] + ' (same identities and hash, no identity allocated)')
        calls.append((12, [w_node(a), T])); meta.append(('pickle', va, None))
        T = nc.counter(impl)
        c = copy.deepcopy(a)
        vc = of_impl(c)
        ctx.case(['copy', shape_of(va)], nt)
        idsc = ids_of(vc)
        if shape_of(vc) != shape_of(va) or min(idsc) <= T or len(set(idsc)) != len(idsc) or not (c == a) or hash(c) != hash(a):
            ctx.violation('impl-violation', op='deepcopy', input=json.dumps(shape_of(va)), observed=repr(vc)[:800],
                          expected='equal tree with fresh pairwise distinct identities')
        calls.append((13, [w_node(a), T])); meta.append(('copy', canon([vc], T)[0], T))
        if len(pool_payloads) < (60 if ctx.thorough else 12):
            pool_payloads.append([a, nc.gen_tree(impl, rng, 3)])
    # --- through a fork-based pool
    with multiprocessing.get_context('fork').Pool(3) as pool:
        try:
            # (a worker that cannot unpickle its arguments loses the task, and a plain map would wait for ever)
            pres = pool.map_async(_worker, pool_payloads).get(timeout=90)
        except Exception as e:  # noqa
            pres = []
            ctx.violation('impl-violation', op='pool', input=json.dumps([impl.to_shapes(p_) for p_ in pool_payloads[:3]])[:1500],
                          observed=f'sending trees to the workers of a fork pool failed: {type(e).__name__}: {e}',
                          expected='every tree arrives in the worker and comes back equal, with the same identities and hash')
            pool.terminate()
        for payload, (seen, back, mod) in zip(pool_payloads, pres):
            for t, (sv, sh), bt in zip(payload, seen, back):
                ctx.case(['pool', impl.to_shape(t)], not t.is_leaf())
                ctx.count('pool-transfer')
                if sv != of_impl(t) or sh != hash(t) or of_impl(bt) != of_impl(t) or hash(bt) != hash(t) or not (bt == t):
                    ctx.violation('impl-violation', op='pool', input=json.dumps(impl.to_shape(t)),
                                  observed=repr((sv, of_impl(bt)))[:800], expected=repr(of_impl(t))[:800])
            if [of_impl(c) for c in mod.data[1:]] != [of_impl(t) for t in payload] or hash(mod) != hash(impl.Node('wrapped', *payload)):
                ctx.violation('impl-violation', op='pool-modified', input=json.dumps(impl.to_shapes(payload)),
                              observed=repr(of_impl(mod))[:800], expected='children identical to the trees sent; hash as built locally')
    # --- a single node as the root of a traversal (dfs and bfs accept a node as well as a list)
    for _ in range(60 if ctx.thorough else 20):
        t = nc.gen_tree(impl, rng, rng.choice([0, 0, 1, 3]))
        v = of_impl(t)
        d = list(impl.nodes.dfs(t))
        b = list(impl.nodes.bfs(t))
        ctx.case(['root', shape_of(v)], True)
        ctx.count('traversals from a node root')
        if any(not isinstance(x, impl.Node) for x in d + b) or [x.id for x in d] != spec_pre(v) or [x.id for x in b] != spec_bfs([v]):
            ctx.violation('impl-violation', op='traversal of a node', input=json.dumps(shape_of(v)),
                          observed=f'dfs {[str(x) for x in d][:8]}, bfs {[str(x) for x in b][:8]}',
                          expected='the node itself, then its descendants (pre-order / by levels), every node once, nothing else')
    # --- the allocator is unbounded in the model: identities beyond 2^31 and 2^32 (a long run on a large input allocates
    # that many: every candidate rebuilds thousands of nodes) must stay increasing and survive pickling
    ctr = getattr(impl.Node, '_Node__ID_COUNTER', None)
    if hasattr(ctr, 'value'):
        saved = ctr.value
        for start in (2**31 - 3, 2**32 - 3):
            try:
                ctr.value = start
                made = [impl.Node('w', impl.Node('k')) for _ in range(3)]
                ids_ = [x.id for m_ in made for x in impl.nodes.dfs(m_)]
                back = [pickle.loads(pickle.dumps(m_)) for m_ in made]
                bad = (sorted(ids_) != list(range(start + 1, start + 1 + len(ids_))) or [of_impl(x) for x in back] != [of_impl(x) for x in made])
                obs = f'identities {ids_}; after pickling {[x.id for m_ in back for x in impl.nodes.dfs(m_)]}'
            except Exception as e:  # noqa
                bad, obs = True, f'{type(e).__name__}: {e}'
            finally:
                ctr.value = saved
            ctx.case(['wide ids', start], True)
            ctx.count('allocations beyond 32 bits')
            if bad:
                ctx.disagree('allocator beyond 32 bits vs Model/Alloc.v', input=f'counter at {start}, nine allocations', impl=obs[:400],
                             model=f'identities {list(range(start + 1, start + 10))}, preserved by pickling')
    # --- identities of nodes built in pool workers
    ncase, probs = nc.cross_process_probe(impl, rng, 12 if ctx.thorough else 4, redup=False, model=model)
    ctx.count('cross-process identity rounds', ncase)
    for pr in probs:
        if pr.get('kind') == 'disagree':
            ctx.disagree(pr['op'], input=json.dumps(pr['input']), impl=pr['observed'][:800], model=pr['expected'][:800])
        else:
            ctx.violation('impl-violation', op=pr['op'], input=json.dumps(pr['input']), observed=pr['observed'][:800], expected=pr['expected'])
    # --- traversals and counts
    for _ in range(N // 2):
        lst = [nc.gen_tree(impl, rng, rng.choice([0, 2, 4])) for _ in range(rng.choice([0, 1, 2, 3]))]
        vs = [of_impl(t) for t in lst]
        md = rng.choice([None, None, 0, 1, 2, 3, -1])
        d = [n.id for n in impl.nodes.dfs(lst, md)]
        b = [n.id for n in impl.nodes.bfs(lst, md)]
        nt = any(v[0] == 'T' and len(v[2]) >= 2 for v in vs)
        ctx.case(['trav', [shape_of(v) for v in vs], md], nt,
                 sample=dict(op='bfs', shapes=repr([shape_of(v) for v in vs])[:200], max_depth=md) if nt else None)
        ctx.count(f'trav:md={md}')
        if md in (None, 0):
            pre = [i for v in vs for i in spec_pre(v)]
            if d != pre or b != spec_bfs(vs) or sorted(d) != sorted(b) or len(set(d)) != len(d):
                ctx.violation('impl-violation', op='traversal', input=json.dumps([shape_of(v) for v in vs]),
                              observed=repr((d, b)), expected=repr((pre, spec_bfs(vs))))
            cn, ce = impl.nodes.count_nodes(lst), impl.nodes.count_exprs(lst)
            if cn != len(pre) or ce != sum(1 for n in impl.nodes.dfs(lst) if not n.is_leaf()):
                ctx.violation('impl-violation', op='count', input=json.dumps([shape_of(v) for v in vs]),
                              observed=repr((cn, ce)), expected=repr(len(pre)))
        m = 0 if md is None else md
        calls.append((14, [w_nodes(lst), m])); meta.append(('dfs', d, None))
        calls.append((15, [w_nodes(lst), m])); meta.append(('bfs', b, None))
        calls.append((16, w_nodes(lst))); meta.append(('count_nodes', impl.nodes.count_nodes(lst), None))
        calls.append((17, w_nodes(lst))); meta.append(('count_exprs', impl.nodes.count_exprs(lst), None))
        if lst:
            calls.append((19, [w_node(lst[0]), m])); meta.append(('dfs_node', [n.id for n in impl.nodes.dfs(lst[0], md)], None))
    for n in list(range(0, 40)) + [rng.randrange(40, 3000) for _ in range(20)]:
        calls.append((18, n)); meta.append(('binary_search', [list(p) for p in impl.nodes.binary_search(n)], None))
        ctx.case(['bs', n], n >= 4)
    # --- compare with the model
    res = model.batch(calls)
    for (op, want, extra), (f, arg), got in zip(meta, calls, res):
        if op in ('eq', 'eq_sm'):
            ok_ = (got == (1 if want else 0))
        elif op == 'pickle':
            ok_ = (got != [] and r_node(got[0]) == want)
        elif op == 'copy':
            ok_ = canon([r_node(got)], extra)[0] == want
        else:
            ok_ = got == want
        if not ok_:
            ctx.disagree(op, input=common.wire_dump(arg)[:1500], impl=repr(want)[:800], model=repr(got)[:800])
    if ctx.thorough:
        shard = calls[:300:3] + calls[-40:]
        vm = model.vm_shard(shard, name='c12shard')
        oc = model.batch(shard)
        bad = sum(1 for a, b in zip(vm, oc) if a != b) + abs(len(vm) - len(oc))
        ctx.extra['vm_compute_shard'] = dict(cases=len(shard), differences_vs_extracted=bad)
        if bad:
            ctx.disagree('extraction vs vm_compute', differences=bad)
    # trees nested far deeper than the interpreter's recursion limit: equality, hashing, copying, pickling and traversal must still
    # answer (the implementation uses explicit stacks throughout)
    import copy as copy_
    import pickle as pickle_

    def chain(depth, leaf):
        t = impl.Node(leaf)
        for _ in range(depth):
            t = impl.Node('f', t, 'k')
        return t
    for depth in ((400, 1200, 5000) if ctx.thorough else (400, 3000)):
        a, b, c = chain(depth, 'x'), chain(depth, 'x'), chain(depth, 'y')
        ctx.case(['deep', depth], True)
        probes = [('a == b for two equal trees built separately', lambda: a == b, True), ('b == a', lambda: b == a, True),
                  ('a == c for trees that differ in the innermost leaf', lambda: a == c, False),
                  ('hash(a) == hash(b)', lambda: hash(a) == hash(b), True),
                  ('deepcopy(a) == a', lambda: copy_.deepcopy(a) == a, True),
                  ('pickle round trip == a', lambda: pickle_.loads(pickle_.dumps(a)) == a, True),
                  ('count_nodes', lambda: impl.nodes.count_nodes(a), 2 * depth + depth + 1),
                  ('dfs visits every node once', lambda: len(list(impl.nodes.dfs(a))), 3 * depth + 1),
                  ('bfs visits every node once', lambda: len(list(impl.nodes.bfs([a]))), 3 * depth + 1)]
        for what, f, want in probes:
            try:
                with common.time_limit(30):
                    got = f()
            except Exception as e:  # noqa
                got = f'exception {type(e).__name__}'
            if got != want:
                ctx.violation('impl-violation', input=f'(f (f ... (f x k) ... k) k) nested {depth} times', operation=what,
                              observed=repr(got)[:200], expected=repr(want))
    ctx.assumptions += [
        'hash functions are arbitrary in the theorems (Section variables); the executed model uses a fixed polynomial hash',
        'pickling modelled at record level (struct packing and UTF-8 payload not modelled; exercised directly on the implementation)',
        'fewer than 2^31 nodes per run (C int counter)',
    ]


def replay(d):
    import impl
    inp = json.loads(d['input'])
    print('op', d.get('op'), 'input', inp, 'observed', d.get('observed'), 'expected', d.get('expected'))

    def tup(e):
        return e if isinstance(e, str) else tuple(tup(x) for x in e)
    if d.get('op') in ('eq', 'hash'):
        a, b = impl.from_shape(tup(inp[0])), impl.from_shape(tup(inp[1]))
        print('a==b:', a == b, 'hash equal:', hash(a) == hash(b), 'shapes equal:', tup(inp[0]) == tup(inp[1]))
        return 0 if (a == b) == (tup(inp[0]) == tup(inp[1])) else 1
    return 1
