"""C05: accepted inputs form a chain; stale parallel results are never adopted."""
import json

import common
import e2e
import e2ejobs


def run(ctx):
    ctx.rule = ('real ddSMT runs (launcher) on generated well-sorted inputs with scripted token-level commands (monotone and '
                'hash-based), strategies ddmin/hierarchical/hybrid, -j 1..4, random delays in workers, command and result '
                'consumption; non-trivial = at least two contents were written; distinct = distinct (input, options, command)')
    ctx.proof = common.prove('C05')
    rng = ctx.rng
    n = 120 if ctx.thorough else 24
    jobs = []
    for i in range(n):
        jobs.append(e2ejobs.job(rng, jobs=rng.choice([2, 3, 4, 4]) if i % 4 else 1, size='small' if i % 3 else 'medium'))
    # ddmin with a slow command: workers are still busy with the superseded input when the next tasks arrive
    for i in range(40 if ctx.thorough else 8):
        j = e2ejobs.job(rng, strategy='ddmin', jobs=rng.choice([2, 3, 4]), size='medium')
        j['env']['VERIF_CMD_DELAY'] = str(rng.choice([30, 60, 120]))
        j['env'].pop('VERIF_WORKER_DELAY', None)
        jobs.append(j)
    for i in range(12 if ctx.thorough else 4):
        jobs.append(e2ejobs.job(rng, strategy=['ddmin', 'hybrid'][i % 2], jobs=1, size='small' if i % 2 else 'medium'))
    # tasks of a ddmin round that were planned for nodes which an earlier acceptance of the same round has removed: they no longer
    # apply, and what they leave (a declaration for a variable nobody uses) must not be tested, let alone adopted
    nested = ('(set-logic ALL)\n(declare-const a Int)\n(declare-const b Int)\n(declare-const c Int)\n'
              '(assert (> (+ (* a b) (- c 1)) 0))\n(assert (< (* (+ a 1) (- b c)) 5))\n(check-sat)\n')
    for k in range(4 if ctx.thorough else 2):
        jobs.append(dict(text=nested, opts=['--strategy', ['ddmin', 'hybrid'][k % 2], '-j', str(1 + k // 2), '--disable-all', '--introduce-fresh-variables'],
                         cmd=[e2e.TOKPRED, 'all', '>', '<'], env={}))
    runs = e2e.run_many(jobs)
    for j, r in zip(jobs, runs):
        P = e2e.analyse(r)
        w = e2e.writes_of(r)
        ctx.case([j['text'], j['opts'], j['cmd'][1:]], len(w) >= 2,
                 sample=dict(options=j['opts'], command=j['cmd'][1:], writes=len(w), tests=len(r.ev('check'))) if len(w) >= 2 else None)
        ctx.count(j['opts'][1] + ' -j' + j['opts'][3])
        ctx.count('writes', len(w))
        ctx.count('tests', len(r.ev('check')))
        for msg in P['C05']:
            ctx.violation('impl-violation', input=j['text'], options=j['opts'], command=j['cmd'], env=j['env'], observed=msg,
                          expected='chain of accepted inputs, no stale adoption, file = last element',
                          writes=w, how_to_replay='./check C05 --replay <file>')
        if r.hung or r.rc != 0:
            ctx.notes.append(f'run ended abnormally (rc={r.rc}, hung={r.hung}): options {j["opts"]}')
    # TIE-H: every hierarchical history is replayed in the extracted scheduler model
    import hiermon
    ok_, log_ = common.build_driver()
    if not ok_:
        raise common.BuildError(log_[-3000:])
    model = common.Model()
    built = [(j, hiermon.build(r.events)) for j, r in zip(jobs, runs) if not r.hung and r.rc == 0]
    built = [(j, b) for j, b in built if b is not None]
    good = [(j, b) for j, b in built if 'error' not in b]
    for j, b in built:
        if b.get('fresh_names'):
            ctx.count('histories not replayed: one candidate modulo fresh-variable names got two verdicts (F18; hashN commands look at the names)')
            continue
        if 'error' in b:
            ctx.disagree('scheduler history (reconstruction)', input=j['text'][:600], options=j['opts'], detail=b['error'])
    res = model.batch([(80, b['arg']) for _, b in good])
    nact = 0
    for (j, b), r_ in zip(good, res):
        nact += b['nactions']
        for msg in hiermon.compare(r_, b):
            ctx.disagree('scheduler history vs Model/SchedHier.v', input=j['text'][:800], options=j['opts'], command=j['cmd'], env=j['env'], detail=msg)
    ctx.count('histories replayed in the model', len(good))
    ctx.count('model actions replayed', nact)
    # the same for ddmin: every task-generator instance is replayed in Model/SchedDdmin.v
    import ddminmon
    dcalls, dmeta = [], []
    for j, r in zip(jobs, runs):
        if r.hung or r.rc != 0:
            continue
        for inst in ddminmon.instances(r.events):
            b = ddminmon.build(inst)
            if 'error' in b:
                ctx.disagree('ddmin history (reconstruction)', input=j['text'][:600], options=j['opts'], detail=b['error'],
                             mutator=inst['gen']['mutator'], parallel=inst['gen']['parallel'])
                continue
            dcalls.append((81, b['arg']))
            dmeta.append((j, b, inst))
    dact = 0
    for (j, b, inst), r_ in zip(dmeta, model.batch(dcalls)):
        dact += b['nactions']
        for msg in ddminmon.compare(r_, b):
            ctx.disagree('ddmin history vs Model/SchedDdmin.v', input=j['text'][:800], options=j['opts'], command=j['cmd'], env=j['env'],
                         mutator=inst['gen']['mutator'], gran=inst['gen']['gran'], parallel=inst['gen']['parallel'], detail=msg)
    ctx.count('ddmin task-generator instances replayed', len(dmeta))
    ctx.count('ddmin model actions replayed', dact)
    # the top level of ddmin (reduce / _apply_mutator): sequential runs are replayed by the model's reduce (dispatch 82)
    import ddtopmon
    tcalls, tmeta = [], []
    for j, r in zip(jobs, runs):
        if r.hung or r.rc != 0:
            continue
        b = ddtopmon.build(r.events)
        if b is None:
            continue
        if 'error' in b:
            ctx.disagree('ddmin top level (reconstruction)', input=j['text'][:600], options=j['opts'], detail=b['error'])
            continue
        tcalls.append((82, b['arg']))
        tmeta.append((j, b))
    for (j, b), r_ in zip(tmeta, model.batch(tcalls)):
        for msg in ddtopmon.compare(r_, b):
            ctx.disagree('ddmin top level vs Model/DdminTop.v', input=j['text'][:800], options=j['opts'], command=j['cmd'], detail=msg)
    ctx.count('sequential ddmin runs replayed by reduce of Model/DdminTop.v', len(tmeta))
    ctx.count('task generators in those runs', sum(b['ngens'] for _, b in tmeta))
    ctx.extra['runs'] = len(runs)
    ctx.assumptions += ['Pool delivers one result per generated task; the launcher\'s wrappers observe the real calls',
                        'token digests identify contents (sha1 over the token sequence)']


def replay(d):
    r = e2e.run_ddsmt(d['input'], d['options'], d['command'], env=d.get('env') or {})
    P = e2e.analyse(r)
    print('writes:', e2e.writes_of(r))
    print('problems:', P['C05'])
    return 1 if P['C05'] else 0
