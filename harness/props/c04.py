"""C04: every run completes: no internal failure on any input, meaningful exit status."""
import json
import os
import shutil
import signal
import subprocess
import tempfile
import time

import common
import e2e
import e2ejobs
import gen
import smtgen

CORPUS = [
    '(declare-const x)', '(assert (let))', '(assert (forall))', '(declare-datatype D (()))', '"abc"', ')', '(', '(forall x y)',
    '(assert ((_ extract 3 0) #xAB))', '(assert (bvneg))', '(set-logic)', '(define-fun f)', '(declare-datatypes (()) ())',
    '(_ )', '(assert ((_ zero_extend 2)))', '(assert (let ((x ((_ zero_extend 2)))) x))', '(declare-fun f)', '(declare-fun f x y)',
    '(define-fun f () )', '(assert (let x y))', '(assert (forall (D0) z))', '(declare-datatypes ((D 0)) (x))',
    '(declare-datatypes ((D 0)) ((())))', '(declare-datatype D (c))', '(declare-datatype D ((c ())))', '(assert (exists ((x)) x))',
    '(assert (= ))', '(assert (=))', '(assert (ite))', '(assert (select))', '(assert (fp))', '(assert (concat))', '(assert ((_ repeat)))',
    '(assert (str.contains))', '(assert (seq.nth (seq.unit)))', '(define-funs-rec () ())', '(define-funs-rec (()) ())', '(assert (!))',
    '(check-sat-assuming)', '(assert (xor))', '(assert (not))', '(assert (not (and)))', '(assert (=> ))', '(assert (_ bv))',
    '(assert (_ bvX 3))', '(assert ((_ sign_extend x) #b1))', '(assert (bvcomp))', '(set-logic LIA)', '(assert (str.indexof))',
    '()', '(())', '((()))', '(let)', '(assert (let (()) x))', '(assert (let ((x)) x))', '(declare-const "s" Int)', '(declare-const |q x| Int)',
    '(assert (distinct))', '(assert (<))', '(assert (/ 1))', '(assert (/ 1 0))', '(declare-datatype)', '(declare-datatypes)',
    '(assert (let ((x (_ bv0 (a)))) x))', '(assert (let ((x ((_ extract (1) 2) c))) x))', '(assert (let ((x ((_ zero_extend ()) c))) x))',
    '(assert (let ((x (_ bv0))) x))', '(assert (let ((x (fp a))) x))', '(assert (let ((x (select))) x))', '(assert (let ((x (ite))) x))',
    '(declare-const x Int)(assert (> x ' + '9' * 320 + '))', '(declare-const x Real)(assert (> x ' + '9' * 320 + '.5))',
    '(assert (= (_ bv1 100000) (_ bv1 100000)))', '(declare-const v (_ BitVec 100000))(assert (= v ((_ zero_extend 99999) #b1)))',
    '(declare-const s String)(assert (= s "' + 'a' * 5000 + '"))', '(assert ' + '(not ' * 300 + 'true' + ')' * 300 + ')',
    '(define-sort)', '(define-sort S)', '(assert (forall ((x Int))))', '(assert ((_ divisible)))', '(assert ((_ to_fp 8) x))',
]


def mutate_shape(rng, e, depth=0):
    """Random structural damage: delete / wrap / unwrap / empty / swap."""
    if isinstance(e, str):
        k = rng.random()
        if k < 0.1:
            return ()
        if k < 0.15:
            return (e,)
        return e
    if not e:
        return rng.choice([(), 'x', ((),)])
    k = rng.random()
    if k < 0.12:
        return e[:rng.randrange(len(e))]                 # truncate the argument list
    if k < 0.2:
        i = rng.randrange(len(e))
        return e[:i] + e[i + 1:]                         # delete a child
    if k < 0.25:
        return ()
    if k < 0.3:
        return rng.choice(e) if e else e                 # replace by a child
    if k < 0.34:
        return e + (rng.choice(e),)
    return tuple(mutate_shape(rng, c, depth + 1) if rng.random() < 0.5 else c for c in e)


def nest(op, n, leaf):
    return ('(%s ' % op) * n + leaf + ')' * n


# terms nested far beyond the interpreter's recursion limit
DEEP = [
    '(set-logic ALL)\n(declare-const y (_ BitVec 8))\n(assert (let ((z %s)) (= z y)))\n(check-sat)\n' % nest('bvnot', 3000, 'y'),
    '(set-logic ALL)\n(declare-const %s Int)\n(assert (> x 0))\n(check-sat)\n' % nest('a', 3000, 'x'),
    '(set-logic ALL)\n(declare-const x Int)\n(assert (> %s 0))\n(check-sat)\n' % nest('+ 1', 3000, 'x'),
    '(set-logic ALL)\n(define-fun f ((p Int)) Int %s)\n(declare-fun %s () Int)\n(assert (> (f 1) 0))\n(check-sat)\n' % (nest('- 1', 2500, 'p'), nest('g', 1500, 'h')),
    '(set-logic ALL)\n(declare-datatype D (%s))\n(assert (forall %s true))\n(check-sat)\n' % (nest('c', 2000, 'd'), nest('q', 2000, 'r')),
]


def mkinv(**kw):
    """invocation vector of Model/Cli.v: everything fine unless stated otherwise"""
    d = dict(in_regular=1, out_ok=1, out_is_in=0, parser_test=0, has_cmd=1, cmd_regular=1, cmd_exec=1, has_cc=0, cc_regular=1, cc_exec=1, jobs_ok=1,
             limits_ok=1, in_decodable=1, cmd_runs=1, cc_runs=1, golden_has_match=1, interrupted=0, internal=0)
    assert set(kw) <= set(d)
    d.update(kw)
    return [d[k] for k in ('in_regular', 'out_ok', 'out_is_in', 'parser_test', 'has_cmd', 'cmd_regular', 'cmd_exec', 'has_cc', 'cc_regular', 'cc_exec', 'jobs_ok',
                           'limits_ok', 'in_decodable', 'cmd_runs', 'cc_runs', 'golden_has_match', 'interrupted', 'internal')]


def inprocess_pipeline(impl, text):
    """Everything that runs unguarded in the main process; returns the first escaping exception or None."""
    from ddsmt import options, mutators, smtlib, nodes, strategy_ddmin, strategy_hierarchical, nodeio

    class NoAbort:
        def is_set(self):
            return False
    stage = 'parse'
    import contextlib
    import io
    try:
        with common.time_limit(20), contextlib.redirect_stderr(io.StringIO()):
            exprs = impl.parse(text)
            stage = 'count'
            nodes.count_exprs(exprs), nodes.count_nodes(exprs)
            stage = 'auto_detect_theories'
            ns = options.parse_options(mutators, ['in.smt2', 'out.smt2', 'cmd'])
            setattr(options, '__PARSED_ARGS', ns)
            mutators.auto_detect_theories(exprs)
            ns2 = options.parse_options(mutators, ['in.smt2', 'out.smt2', 'cmd'])   # all mutators enabled for the rest
            setattr(options, '__PARSED_ARGS', ns2)
            stage = 'collect_information'
            smtlib.collect_information(exprs)
            stage = 'render'
            for mode in ('check', 'default', 'pretty', 'wrap'):
                impl.render(exprs, mode)
            stage = 'reduplicate'
            nodes.reduplicate(exprs)
            stage = 'ddmin task generation'
            for ps, md in zip(strategy_ddmin.ddmin_passes(), (1, None)):
                for m in ps:
                    for gran in (None, 1):
                        for t in strategy_ddmin.TaskGenerator(exprs, gran, m, md):
                            pass
            stage = 'hierarchical task generation'
            passes = strategy_hierarchical.get_passes()
            for pid in range(len(passes)):
                ms, params = strategy_hierarchical.get_pass(passes, pid)
                n = 0
                for t in strategy_hierarchical.Producer(ms, NoAbort(), exprs).generate(0, params):
                    n += 1
                    if n > 3000:
                        break
    except Exception as e:  # noqa
        import traceback
        return dict(stage=stage, exception=f'{type(e).__name__}: {e}', tb=traceback.format_exc()[-1200:])
    return None


NODAC = '[file permissions enforced] '


def run_exe(kind, args, cwd, env=None, timeout=120, sigint_after=None, nodac=False):
    if kind == 'bin':
        argv = [common.PY, os.path.join(common.REPO, 'bin', 'ddsmt')] + args
        e = dict(os.environ, PYTHONPATH='')
    else:
        argv = [common.PY, '-m', 'ddsmt'] + args
        e = dict(os.environ, PYTHONPATH=common.REPO)
    if nodac:
        # root ignores permission bits: drop the two capabilities that make it do so
        import shlex
        argv = ['capsh', '--drop=cap_dac_override,cap_dac_read_search', '--', '-c', shlex.join(argv)]
    e.update(env or {})
    e['TMPDIR'] = cwd
    # a background shell leaves SIGINT ignored, which Python inherits: start the child with the default disposition
    p = subprocess.Popen(argv, cwd=cwd, env=e, stdout=subprocess.PIPE, stderr=subprocess.PIPE, text=True,
                         preexec_fn=lambda: (os.setsid(), signal.signal(signal.SIGINT, signal.SIG_DFL)))
    if sigint_after is not None:
        time.sleep(sigint_after)
        p.send_signal(signal.SIGINT)
    try:
        out, err = p.communicate(timeout=timeout)
    except subprocess.TimeoutExpired:
        # workers that outlive the main process keep the pipes open: kill the whole session
        try:
            os.killpg(p.pid, signal.SIGKILL)
        except OSError:
            p.kill()
        out, err = p.communicate()
        return None, out, err
    return p.returncode, out, err


def run(ctx):
    ctx.rule = ('(1) malformed s-expression texts (corpus of wrong arities + structurally damaged well-sorted scripts + random paren/'
                'quote soup) through every function that runs unguarded in the main process (parser, theory detection, collect_information, '
                'renderers, reduplicate, ddmin and hierarchical task generation with every mutator); (2) both executables (bin/ddsmt, '
                'python -m ddsmt) on every usage error, on malformed inputs with all strategies, and under SIGINT; (3) real reductions with '
                'token-level commands (reachable intermediate inputs); non-trivial = text is not well-sorted SMT-LIB / a usage error / a run '
                'with >= 5 tests; distinct = distinct texts / invocations')
    ctx.proof = common.prove('C04')
    ok, log = common.build_driver()
    if not ok:
        raise common.BuildError(log[-3000:])
    import impl
    model = common.Model()
    rng = ctx.rng
    # ---- (1) malformed stream, in process
    texts = list(CORPUS) + DEEP[:2]
    n1 = 1500 if ctx.thorough else 220
    while len(texts) < n1:
        k = rng.random()
        if k < 0.7:
            g, cmds = smtgen.gen_script(rng, nasserts=rng.choice([1, 2, 3]), depth=rng.choice([2, 3]))
            shapes = [c.shape() for c in cmds]
            for _ in range(rng.choice([1, 2, 4])):
                i = rng.randrange(len(shapes))
                shapes[i] = mutate_shape(rng, shapes[i])
            texts.append('\n'.join(smtgen.render_shape(s) for s in shapes))
        elif k < 0.85:
            texts.append(' '.join(rng.sample(CORPUS, rng.choice([2, 3, 5]))))
        else:
            alphabet = ['(', ')', ' ', '\n', '"', '|', ';', 'a', 'let', 'forall', '_', 'assert', 'declare-const', 'x', 'Int', '()', '0', '#b1']
            texts.append(' '.join(rng.choice(alphabet) for _ in range(rng.choice([3, 8, 20]))))
    for t in texts:
        bad = inprocess_pipeline(impl, t)
        ctx.case(['text', t], True, sample=dict(text=t[:160]) if len(ctx.samples) < 3 else None)
        ctx.count('malformed texts')
        if bad:
            ctx.violation('impl-violation', input=t, observed=f"internal error in {bad['stage']}: {bad['exception']}", traceback=bad['tb'],
                          expected='no exception escapes the main-process code', how_to_replay='./check C04 --replay <file>')
    # ---- (1b) fault injection: a mutator that raises ANY exception class costs only its own candidates (theorem mutator_isolated)
    from ddsmt import mutators_core, strategy_ddmin, strategy_hierarchical, smtlib, options, mutators

    class NoAbort:
        def is_set(self):
            return False
    ns2 = options.parse_options(mutators, ['in.smt2', 'out.smt2', 'cmd'])
    setattr(options, '__PARSED_ARGS', ns2)
    base_text = '(set-logic ALL)\n(declare-const x Int)\n(declare-const y Int)\n(assert (> (+ x y 10) 100))\n(assert (< x y))\n(check-sat)\n'
    excs = [OverflowError, ZeroDivisionError, RecursionError, KeyError, UnicodeDecodeError, StopIteration, RuntimeError, NotImplementedError,
            ArithmeticError, OSError, EOFError, LookupError, ValueError, TypeError, AssertionError, MemoryError]

    def names_of(exprs, skip_cls):
        res = []
        passes = strategy_hierarchical.get_passes()
        ms, params = strategy_hierarchical.get_pass(passes, len(passes) - 1)
        for t in strategy_hierarchical.Producer(ms, NoAbort(), exprs).generate(0, params):
            res.append((t.nodeid, t.name))
        dd = []
        for ps, md in zip(strategy_ddmin.ddmin_passes(), (1, None)):
            for m in ps:
                for t in strategy_ddmin.TaskGenerator(exprs, 1, m, md):
                    dd.append((type(m).__name__, t.id))
        return res, dd
    import contextlib
    import io
    exprs0 = impl.parse(base_text)
    smtlib.collect_information(exprs0)
    with contextlib.redirect_stderr(io.StringIO()):
        ref_h, ref_d = names_of(exprs0, None)
    victim = mutators_core.ReplaceByChild
    vname = str(victim())
    for exc in excs:
        for where in ('filter', 'mutations'):
            orig = getattr(victim, where)

            def boom(self, *a, _exc=exc, **k):
                if _exc is UnicodeDecodeError:
                    raise UnicodeDecodeError('utf-8', b'x', 0, 1, 'injected')
                raise _exc('injected by the C04 check')
            setattr(victim, where, boom)
            try:
                with contextlib.redirect_stderr(io.StringIO()), common.time_limit(30):
                    got_h, got_d = names_of(exprs0, victim)
                want_h = [x for x in ref_h if x[1] != vname]
                want_d = [x for x in ref_d if x[0] != 'ReplaceByChild']
                if got_h != want_h or got_d != want_d:
                    ctx.violation('impl-violation', input=base_text, observed=f'{exc.__name__} raised in ReplaceByChild.{where} changed the candidates of OTHER mutators '
                                  f'(hierarchical {len(got_h)} vs {len(want_h)}, ddmin {len(got_d)} vs {len(want_d)})',
                                  expected='only that mutator\'s candidates are lost')
            except Exception as e:  # noqa
                ctx.violation('impl-violation', input=base_text, observed=f'{exc.__name__} raised inside ReplaceByChild.{where} escaped the candidate generation: {type(e).__name__}: {e}',
                              expected='a failure inside one mutator costs only that mutator\'s candidates', how_to_replay='./check C04 --quick')
            finally:
                setattr(victim, where, orig)
            ctx.case(['inject', exc.__name__, where], True)
            ctx.count('exception classes injected into a mutator')
    # ---- (2) executables
    d = tempfile.mkdtemp(prefix='verif-c04-', dir=e2e.SCRATCH_ROOT)
    try:
        good = os.path.join(d, 'in.smt2')
        open(good, 'w').write('(set-logic ALL)\n(declare-const x Int)\n(assert (> x 0))\n(assert (< x 5))\n(check-sat)\n')
        cmd = [e2e.TOKPRED, 'all', 'x']
        noexec = os.path.join(d, 'noexec.sh')
        open(noexec, 'w').write('#!/bin/sh\nexit 0\n')
        os.chmod(noexec, 0o644)
        os.mkdir(os.path.join(d, 'adir'))
        out = os.path.join(d, 'out.smt2')
        # invocation -> model input (in_regular, parser_test, has_cmd, cmd_regular, cmd_exec, golden_has_match, interrupted, internal)
        cases = [
            ('missing input', [os.path.join(d, 'nonexist.smt2'), out] + cmd, mkinv(in_regular=0)),
            ('input is a directory', [os.path.join(d, 'adir'), out] + cmd, mkinv(in_regular=0)),
            ('no command', [good, out], mkinv(has_cmd=0)),
            ('command missing', [good, out, os.path.join(d, 'nonexist.sh')], mkinv(cmd_regular=0)),
            ('command is a directory', [good, out, os.path.join(d, 'adir')], mkinv(cmd_regular=0)),
            ('command not executable', [good, out, noexec], mkinv(cmd_exec=0)),
            ('match-out absent', ['--match-out', 'nosuchstring', good, out] + cmd, mkinv(golden_has_match=0)),
            ('match-err absent', ['--match-err', 'nosuchstring', good, out] + cmd, mkinv(golden_has_match=0)),
            ('parser test', ['--parser-test', good, out], mkinv(parser_test=1, has_cmd=0)),
            ('normal run', [good, out] + cmd, mkinv()),
            ('normal run ddmin -j2', ['--strategy', 'ddmin', '-j', '2', good, out] + cmd, mkinv()),
            ('nothing to minimise', [good, out, e2e.TOKPRED, 'all', 'set-logic', 'ALL', 'declare-const', 'x', 'Int', 'assert', '>', '0', '<', '5', 'check-sat'],
             mkinv()),
        ]
        # further usage errors and hostile commands (the model's invocation vector treats them as: command cannot be run -> 1,
        # or a normal run -> 0)
        nonutf = os.path.join(d, 'nonutf.sh')
        open(nonutf, 'w').write('#!/bin/sh\nprintf "\\377\\376 bug\\n"\nprintf "\\200\\n" >&2\ngrep -q x "$1" && exit 1\nexit 0\n')
        os.chmod(nonutf, 0o755)
        garbage = os.path.join(d, 'garbage')
        open(garbage, 'wb').write(b'\x7fELFgarbage')
        os.chmod(garbage, 0o755)
        noshebang = os.path.join(d, 'noshebang')
        open(noshebang, 'w').write('echo hi\n')
        os.chmod(noshebang, 0o755)
        badutf = os.path.join(d, 'bad.smt2')
        open(badutf, 'wb').write(b'(assert bug)\n(assert |\xff|)\n')
        os.mkdir(os.path.join(d, 'real'))
        shutil.copy(good, os.path.join(d, 'real', 'in.smt2'))
        os.symlink(os.path.join(d, 'real'), os.path.join(d, 'link'))
        cases += [
            ('command output is not UTF-8', [good, out, nonutf], mkinv()),
            ('command has no valid executable format', [good, out, garbage], mkinv(cmd_runs=0)),
            ('command without shebang line', [good, out, noshebang], mkinv(cmd_runs=0)),
            ('cross-check command has no valid executable format', ['-c', garbage, good, out] + cmd, mkinv(has_cc=1, cc_runs=0)),
            ('cross-check command missing', ['-c', os.path.join(d, 'nonexist.sh'), good, out] + cmd, mkinv(has_cc=1, cc_regular=0)),
            ('cross-check command not executable', ['-c', noexec, good, out] + cmd, mkinv(has_cc=1, cc_exec=0)),
            ('cross-check run', ['-c', ' '.join(cmd), good, out] + cmd, mkinv(has_cc=1)),
            ('zero jobs', ['-j', '0', '--strategy', 'hierarchical', good, out] + cmd, mkinv(jobs_ok=0)),
            ('zero jobs, ddmin', ['-j', '0', '--strategy', 'ddmin', good, out] + cmd, mkinv(jobs_ok=0)),
            ('negative jobs', ['-j', '-3', good, out] + cmd, mkinv(jobs_ok=0)),
            ('output file is the input file', [good, good] + cmd, mkinv(out_is_in=1)),
            ('output file in a directory that does not exist', [good, os.path.join(d, 'nodir', 'out.smt2')] + cmd, mkinv(out_ok=0)),
            ('output file is a directory', [good, os.path.join(d, 'adir')] + cmd, mkinv(out_ok=0)),
            ('--timeout inf', ['--timeout', 'inf', good, out] + cmd, mkinv(limits_ok=0)),
            ('--timeout nan', ['--timeout', 'nan', good, out] + cmd, mkinv(limits_ok=0)),
            ('--timeout 1e30', ['--timeout', '1e30', good, out] + cmd, mkinv(limits_ok=0)),
            ('--timeout-cc nan', ['-c', ' '.join(cmd), '--timeout-cc', 'nan', good, out] + cmd, mkinv(has_cc=1, limits_ok=0)),
            ('--memout too large', ['--memout', '20000000000000', good, out] + cmd, mkinv(limits_ok=0)),
            ('input file is not valid UTF-8', [badutf, out] + cmd, mkinv(in_decodable=0)),
            ('input file is not valid UTF-8, --parser-test', ['--parser-test', badutf, out], mkinv(in_decodable=0, parser_test=1, has_cmd=0)),
            ('cross-check golden run lacks --match-out-cc', ['-c', ' '.join(cmd), '--match-out-cc', 'nosuchstring', good, out] + cmd, mkinv(has_cc=1, golden_has_match=0)),
            ('cross-check golden run lacks --match-err-cc', ['-c', ' '.join(cmd), '--match-err-cc', 'nosuchstring', good, out] + cmd, mkinv(has_cc=1, golden_has_match=0)),
            # limits the system calls cannot take (poll() counts milliseconds in a C int; prlimit() takes no negative numbers)
            ('--timeout 3000000', ['--timeout', '3000000', good, out] + cmd, mkinv(limits_ok=0)),
            ('--timeout=-1e99', ['--timeout=-1e99', good, out] + cmd, mkinv(limits_ok=0)),
            ('--timeout=-inf', ['--timeout=-inf', good, out] + cmd, mkinv(limits_ok=0)),
            ('--timeout-cc=-1e99', ['-c', ' '.join(cmd), '--timeout-cc=-1e99', good, out] + cmd, mkinv(has_cc=1, limits_ok=0)),
            ('--memout negative', ['--memout=-99999999999999', good, out] + cmd, mkinv(limits_ok=0)),
            ('--timeout 2000000 (fine)', ['--timeout', '2000000', good, out] + cmd, mkinv()),
            # output paths beside which no temporary file can be created
            ('output file name close to NAME_MAX', [good, os.path.join(d, 'o' * 245 + '.smt2')] + cmd, mkinv(out_ok=0)),
            ('output path with a trailing slash', [good, os.path.join(d, 'newout') + '/'] + cmd, mkinv(out_ok=0)),
            ('output file below /proc', [good, '/proc/out.smt2'] + cmd, mkinv(out_ok=0)),
            ('output file is the input file, reached through a symbolic link to its directory', [os.path.join(d, 'real', 'in.smt2'), os.path.join(d, 'link', 'in.smt2')] + cmd, mkinv(out_is_in=1)),
            ('several usage errors at once', ['-j', '0', '-c', noexec, good, good, noexec], mkinv(out_is_in=1, cmd_exec=0, has_cc=1, cc_exec=0, jobs_ok=0)),
        ]
        if shutil.which('capsh'):
            unread = os.path.join(d, 'unreadable.smt2')
            shutil.copy(good, unread)
            os.chmod(unread, 0)
            xonly = os.path.join(d, 'xonly.sh')
            shutil.copy(cmd[0], xonly)
            os.chmod(xonly, 0o111)
            rodir = os.path.join(d, 'rodir')
            os.mkdir(rodir)
            open(os.path.join(rodir, 'out.smt2'), 'w').close()
            os.chmod(os.path.join(rodir, 'out.smt2'), 0o666)
            os.chmod(rodir, 0o555)
            cases += [
                (NODAC + 'input file without read permission', [unread, out] + cmd, mkinv(in_decodable=0)),
                (NODAC + 'input file without read permission, --parser-test', ['--parser-test', unread, out], mkinv(in_decodable=0, parser_test=1, has_cmd=0)),
                (NODAC + 'command without read permission', [good, out, xonly] + cmd[1:], mkinv(cmd_runs=0)),
                (NODAC + 'writable output file in a directory without write permission', [good, os.path.join(rodir, 'out.smt2')] + cmd, mkinv(out_ok=0)),
            ]
        mcalls = [(45, inv) for _, _, inv in cases]
        mres = model.batch(mcalls)
        for (name, args, inv), (status, lines) in zip(cases, mres):
            for kind in ('bin', 'module'):
                rc, so, se = run_exe(kind, args, d, nodac=name.startswith(NODAC))
                ctx.case(['exe', kind, name], True, sample=dict(invocation=name, executable=kind, status=rc, stdout=so.strip()[:120]) if kind == 'bin' and len(ctx.samples) < 6 else None)
                ctx.count('executable invocations')
                problems = []
                if rc != status:
                    problems.append(f'exit status {rc}, expected {status}')
                if 'Traceback' in se or 'Traceback' in so:
                    problems.append('Traceback printed: ' + (se + so)[(se + so).find('Traceback'):][:400])
                diag = [ln for ln in (so + se).split('\n') if ln.strip() and ('Error' in ln or 'ERROR' in ln)]
                if lines == 1 and len(diag) != 1:
                    problems.append(f'expected one diagnostic line, got {len(diag)}: {diag[:3]}')
                if 'symbolic link' in name and open(os.path.join(d, 'real', 'in.smt2')).read() != open(good).read():
                    problems.append('the input file was overwritten')
                    shutil.copy(good, os.path.join(d, 'real', 'in.smt2'))
                if problems:
                    if rc != status and not ('Traceback' in se + so):
                        ctx.disagree('run_cli/exit_status', input=name, impl=f'status {rc}', model=f'status {status}')
                    ctx.violation('impl-violation', input=name, executable=kind, argv=args, observed='; '.join(problems),
                                  expected=f'exit status {status} and {lines} diagnostic line(s), no traceback')
        # malformed inputs through the real executables, all strategies
        mal = rng.sample(CORPUS, 12 if ctx.thorough else 5) + [t for t in texts[len(CORPUS):len(CORPUS) + (30 if ctx.thorough else 6)]] + (DEEP if ctx.thorough else DEEP[:3])
        jobs = []
        for k, t in enumerate(mal):
            toks = [x for x in e2e.sh_tokens(t) if x not in '()']
            pred = [e2e.TOKPRED, 'all'] + (rng.sample(toks, min(len(toks), 1)) if toks else ['zzz'])
            if t in DEEP:
                pred = [e2e.TOKPRED, 'all', 'check-sat']      # the nest itself can go at once: the run is about surviving it, not about its length
            jobs.append(dict(text=t, opts=['--strategy', ['ddmin', 'hierarchical', 'hybrid'][k % 3], '-j', str(1 + k % 2)], cmd=pred, timeout=120))
        # (3) reachable intermediate inputs: real reductions
        for k in range(40 if ctx.thorough else 8):
            jobs.append(dict(e2ejobs.job(rng, size='small'), timeout=180))
        # several PARALLEL ddmin rounds in one run (more than 2*jobs subsets, several mutators with work to do)
        wide = ('(set-logic ALL)\n(set-info :source "Z\u00fcrich \u03bb \U0001F600")\n' + ''.join(f'(declare-const v{k} Int)\n' for k in range(10))
                + ''.join(f'(assert (> (+ v{k % 10} {k + 2}) (* v{(k + 3) % 10} {k + 3})))\n' for k in range(14)) + '(check-sat)\n')
        for k in range(6 if ctx.thorough else 3):
            jobs.append(dict(text=wide, opts=['--strategy', ['ddmin', 'hybrid', 'ddmin'][k % 3], '-j', str(2 + k % 3)],
                             cmd=[e2e.TOKPRED, 'all', 'v1', 'v4', f'{k + 5}'], env={}, timeout=300))
        runs = e2e.run_many(jobs)
        for j, r in zip(jobs, runs):
            P = e2e.analyse(r)
            ctx.case(['run', j['text'], j['opts'], j['cmd'][1:]], len(r.ev('check')) >= 5)
            ctx.count('real runs')
            for msg in P['C04']:
                ctx.violation('impl-violation', input=j['text'], options=j['opts'], command=j['cmd'], observed=msg,
                              expected='exit status 0, no internal error', how_to_replay='./check C04 --replay <file>')
        # SIGINT
        slow = os.path.join(d, 'slow.sh')
        open(slow, 'w').write('#!/bin/sh\nsleep 0.3\ngrep -q x "$1" && { echo bug; exit 1; }\necho ok\n')
        os.chmod(slow, 0o755)
        big = os.path.join(d, 'big.smt2')
        open(big, 'w').write('(set-logic ALL)\n(declare-const x Int)\n' + ''.join(f'(assert (> x {k}))\n' for k in range(30)) + '(check-sat)\n')
        for kind in ('bin', 'module'):
            for strat in (['--strategy', 'hierarchical'], ['--strategy', 'ddmin']):
                rc, so, se = run_exe(kind, strat + [big, out, slow], d, sigint_after=2.0, timeout=60)
                ctx.case(['sigint', kind, strat], True)
                ctx.count('interrupts')
                problems = []
                if rc != 1:
                    problems.append(f'exit status {rc} after SIGINT, expected 1')
                if '[ddsmt] interrupted' not in so:
                    problems.append(f'no "[ddsmt] interrupted" line; stdout {so[-200:]!r}')
                if 'Traceback' in se and 'KeyboardInterrupt' not in se:
                    problems.append('internal error traceback: ' + se[se.find('Traceback'):][:300])
                left = [f for f in os.listdir(d) if f.startswith('ddsmt-')]
                if left:
                    problems.append(f'temporary directory not removed: {left}')
                if problems:
                    ctx.violation('impl-violation', input='SIGINT after 2 s', executable=kind, argv=strat, observed='; '.join(problems),
                                  expected='one-line "[ddsmt] interrupted", exit status 1, temporary directory removed')
        # the command cannot be started for ONE candidate in the middle of the run (its private copy vanishes for a moment:
        # a tmp cleaner, a wrapper replacing itself, a transient exec failure): that candidate is lost, nothing else
        for strat in (['--strategy', 'hierarchical', '-j', '2'], ['--strategy', 'ddmin', '-j', '1'], ['--strategy', 'ddmin', '-j', '3']):
            counter = os.path.join(d, 'count-' + ''.join(strat).replace('-', ''))
            vanish = os.path.join(d, 'vanish.sh')
            # the 4th invocation removes the executable (ddSMT's private copy): every later start fails with ENOENT
            open(vanish, 'w').write('#!/bin/sh\nn=$(cat "$CNT" 2>/dev/null || echo 0); n=$((n+1)); echo $n > "$CNT"\n'
                                    'if [ $n -eq 4 ]; then rm -f "$0"; fi\n'
                                    'grep -q x "$1" && { echo bug; exit 1; }\necho ok\n')
            os.chmod(vanish, 0o755)
            rc, so, se = run_exe('bin', strat + [big, out, vanish], d, env={'CNT': counter}, timeout=90)
            ctx.case(['vanishing command', strat], True)
            ctx.count('runs with a command that cannot be started once')
            problems = []
            if rc is None:
                problems.append('ddSMT did not finish within 90 s (a lost task is waited for for ever)')
            elif rc != 0:
                problems.append(f'exit status {rc}; output tail {(so + se)[-300:]!r}')
            if problems:
                ctx.violation('impl-violation', input='30 assertions; the command cannot be started for one candidate', argv=strat, observed='; '.join(problems),
                              expected='the run completes with exit status 0: a candidate whose check fails costs only that candidate')
    finally:
        shutil.rmtree(d, ignore_errors=True)
    ctx.assumptions += ['exceptions inside worker processes are caught by the strategies\' guards (modelled: mutator_isolated)',
                        'MemoryError is not provoked (modelled only)']


def replay(d):
    import impl
    if d.get('options') is not None and d.get('command'):
        r = e2e.run_ddsmt(d['input'], d['options'], d['command'])
        print('rc', r.rc, r.stderr[-800:])
        return 1 if e2e.analyse(r)['C04'] else 0
    bad = inprocess_pipeline(impl, d['input'])
    print(bad)
    return 1 if bad else 0
