#!/bin/bash
# run every check (quick by default) on the current tree, sequentially; summary at the end
cd /verif
tier=${1:---quick}
for i in $(seq -w 1 18); do
  p=C$i
  s=$(date +%s)
  out=$(./check $p $tier 2>&1)
  rc=$?
  echo "$p rc=$rc $(( $(date +%s) - s ))s | $(echo "$out" | grep -a '^\[C\|^VIOLATION\|^KNOWN' | cut -c1-160 | tr '\n' '|')"
done
