"""TIE-C for Model/Declared.v (dispatch 140-142): what smtlib.collect_information records that
smtlib.is_declared_symbol looks at, and is_declared_symbol itself.

For every text: read it with the implementation, call collect_information (an input on which it raises is skipped and
counted), then compare
  - smtlib.is_declared_symbol(Node(name)) with the model's is_declared (140) for every leaf text of the script, the
    quoted / unquoted spelling of each, the names the declaring mutators derive (_x, x_prefix, x_suffix, x<id>__fresh) and
    a few fixed names (the empty name, on which the implementation raises IndexError, is skipped and counted);
  - the keys of __sort_lookup, the members of __other_symbols, the LEAF keys of __datatypes_constructors and of
    __datatypes_selectors and the members of __all_tokens with the model's five tables (142) as sets, and their union
    with declared_table (141).
The texts are the given ones, a malformed corpus (wrong arities of every declaring command, leaves in the place of
lists and lists in the place of leaves, comments in every position, ||, |a b|, datatypes with par, fewer / more
constructor lists than sorts, shadowing lets / quantifiers, bindings with 1 or 3 elements, ...), random scripts of
declaring commands of every kind with comments in random places (gen_decl_script) and token-level mutations of all of
them."""
import re

import common
from common import w_shape, w_str

FIXED = ['_v', 'v', '|_v|', '|v|', 'x', '|x|', '_x', '||', '|', '|||', '||||', '|a b|', 'a b', 'par', 'let', 'X', 'D', 'Int', '0', '1', '; c\n',
         'x_prefix', 'x_suffix', 'x1__fresh', '_', '__x', '|_x|', '|x_prefix|', 'a|b', '|a|b|', '"a"', '']

CORPUS = [
    # the three regression inputs of C15 and a negative one
    '(declare-const |_v| (_ BitVec 8))', '(define-fun f ((_v (_ BitVec 8))) (_ BitVec 8) (bvadd _v v))', '(declare-const _v ; note\n (_ BitVec 8))',
    '(declare-const v (_ BitVec 8))',
    # declare-const
    '(declare-const)', '(declare-const x)', '(declare-const x Int)', '(declare-const x Int extra)', '(declare-const (x) Int)', '(declare-const () Int)', '(declare-const x (Int))',
    '(declare-const |x| Int)', '(declare-const || Int)', '(declare-const |a b| Int)', '(declare-const "x" Int)', '(declare-const 12 Int)', '((declare-const) x Int)',
    '(declare-const ; a\n x Int)', '(declare-const x ; a\n Int)', '(declare-const x Int ; a\n)', '(; a\n declare-const x Int)', '(; a\n declare-const ; b\n x ; c\n Int ; d\n)',
    '(declare-const ; a\n Int)', '(declare-const x Int ; a\n extra)', '(declare-const ;x\n ;y\n)', 'declare-const x Int', '(Declare-const x Int)', '(declare-const  x\tInt)',
    # declare-fun
    '(declare-fun)', '(declare-fun f)', '(declare-fun f ())', '(declare-fun f () Int)', '(declare-fun f () Int extra)', '(declare-fun f x Int)', '(declare-fun f (Int Int) Int)',
    '(declare-fun (f) () Int)', '(declare-fun |f g| () Int)', '(declare-fun f ; c\n () Int)', '(declare-fun f () ; c\n Int ; d\n)', '(declare-fun f (; c\n) Int)', '(declare-fun f ; c\n Int)',
    '(declare-fun f () ())', '(declare-fun () () ())', '(declare-fun f (()) Int)',
    # define-fun
    '(define-fun)', '(define-fun f)', '(define-fun f ())', '(define-fun f () Int)', '(define-fun f () Int 1)', '(define-fun f () Int 1 2)', '(define-fun f x Int 1)', '(define-fun (f) () Int 1)',
    '(define-fun f ((x Int) (y Bool)) Int x)', '(define-fun f (x) Int 1)', '(define-fun f ((x)) Int 1)', '(define-fun f ((x Int Int)) Int 1)', '(define-fun f (()) Int 1)', '(define-fun f (((x) Int)) Int 1)',
    '(define-fun f ((x Int) y (z) () ((w)) (1 2 3)) Int 1)', '(define-fun f ((|x| Int)) Int |x|)', '(define-fun f ((; c\n x Int)) Int x)', '(define-fun f ((x ; c\n Int)) Int x)',
    '(define-fun f (; c\n (x Int)) Int x)', '(define-fun f ; c\n ((x Int)) Int x)', '(define-fun ; a\n f ; b\n ((x Int)) ; c\n Int ; d\n x ; e\n)', '(define-fun f ((x Int)) Int)',
    '(define-fun f ((x Int)) Int x ; c\n)', '(define-fun f ((f Int)) Int f)', '(define-fun f ((x Int) (x Int)) Int x)', '(define-fun |f| ((|a b| Int)) Int 1)',
    '(define-fun f ((x Int)) Int (let ((y x)) (forall ((z Int)) (exists ((w Int)) (= y z w)))))',
    # define-fun-rec
    '(define-fun-rec)', '(define-fun-rec f)', '(define-fun-rec f x)', '(define-fun-rec f ())', '(define-fun-rec f ((x Int)))', '(define-fun-rec f ((x Int)) Int (f x))', '(define-fun-rec f ((x Int)) Int (f x) extra)',
    '(define-fun-rec (f) ((x Int)) Int (f x))', '(define-fun-rec f ((x Int) y (z)) Int 1)', '(define-fun-rec ; c\n f ((x Int)) Int 1)', '(define-fun-rec f ; c\n ((x Int)) Int 1)', '(define-fun-rec f ((; c\n x Int)) Int 1)',
    '(define-fun-rec |f| ((|x| Int)) Int 1)', '(define-fun-rec f Int ((x Int)))',
    # define-funs-rec
    '(define-funs-rec)', '(define-funs-rec f)', '(define-funs-rec f g)', '(define-funs-rec ())', '(define-funs-rec () ())', '(define-funs-rec ((f ((x Int)) Int) (g () Int)) ((g) (f 1)))',
    '(define-funs-rec ((f ((x Int)) Int) (g ((y Int) (z Int)) Int)) (x y) extra)', '(define-funs-rec (f (g) ((h)) (k x) (m (a (b) ((c)))) ()) ())', '(define-funs-rec ((f)) (1))', '(define-funs-rec ((f x)) (1))',
    '(define-funs-rec ((f ((x Int)))) (1))', '(define-funs-rec (((f) ((x Int)) Int)) (1))', '(define-funs-rec (; c\n (f ((x Int)) Int)) (x))', '(define-funs-rec ((f ; c\n ((x Int)) Int)) (x))',
    '(define-funs-rec ((; c\n f ((x Int)) Int)) (x))', '(define-funs-rec ; c\n ((f ((x Int)) Int)) (x))', '(define-funs-rec ((f ((x Int)) Int)) ; c\n (x))', '(define-funs-rec ((f ((x Int)) Int)))',
    '(define-funs-rec ((|f g| ((|x y| Int)) Int)) (1))',
    # declare-datatype
    '(declare-datatype)', '(declare-datatype D)', '(declare-datatype D ())', '(declare-datatype D c)', '(declare-datatype D (c))', '(declare-datatype D ((c)))', '(declare-datatype D ((c) (d (s Int) (t D))))',
    '(declare-datatype D ((c) d (e)))', '(declare-datatype D (()))', '(declare-datatype D ((c)) extra)', '(declare-datatype (D) ((c)))', '(declare-datatype D (((c))))', '(declare-datatype D ((c s)))',
    '(declare-datatype D ((c (s))))', '(declare-datatype D ((c ())))', '(declare-datatype D ((c ((s) Int))))', '(declare-datatype D ((c (s Int Int))))', '(declare-datatype D ; k\n ((c)))',
    '(declare-datatype D (; k\n (c)))', '(declare-datatype D ((; k\n c)))', '(declare-datatype D ((c ; k\n (s Int))))', '(declare-datatype D ((c (; k\n s Int))))', '(declare-datatype D ((c (s ; k\n Int))))',
    '(declare-datatype D ((c)) ; k\n)', '(declare-datatype ; k\n ((c)))', '(declare-datatype D ((|c d| (|s t| Int))))',
    '(declare-datatype L (par (X) ((nil) (cons (hd X) (tl (L X))))))', '(declare-datatype L (par (X) ((nil))))', '(declare-datatype L (par (X)))', '(declare-datatype L (par (X) nil))',
    '(declare-datatype L (par (X) ((nil)) extra))', '(declare-datatype L (par X ((nil) (cons (hd X)))))', '(declare-datatype L (par () ()))', '(declare-datatype L ((par (X) ((nil)))))',
    '(declare-datatype L (((par (X) ((nil))))))', '(declare-datatype L ((((par (X) ((nil)))))))', '(declare-datatype L (par (X) ((nil) ; k\n (cons (hd X)))))', '(declare-datatype L (par ; k\n (X) ((nil))))',
    '(declare-datatype L (Par (X) ((nil))))', '(declare-datatype L ((par) (X) ((nil))))', '(declare-datatype L (par (X) ((par (Y) ((c))))))', '(declare-datatype L (par (X) ((nil (a (b (c d)))))) extra)',
    '(declare-datatype L (par (X) ((nil)))) (declare-datatype M (par (X) ((mil)) ) )',
    # declare-datatypes
    '(declare-datatypes)', '(declare-datatypes ((D 0)))', '(declare-datatypes ((D 0)) ())', '(declare-datatypes ((D 0)) x)', '(declare-datatypes x (((c))))', '(declare-datatypes () ())', '(declare-datatypes () (((c))))',
    '(declare-datatypes ((D 0)) (((c))))', '(declare-datatypes ((D 0)) (((c) (d (s Int)))))', '(declare-datatypes ((D 0) (E 0)) (((c) (d)) ((e (s D)))))', '(declare-datatypes ((D 0) (E 0)) (((c) (d))))',
    '(declare-datatypes ((D 0)) (((c)) ((e))))', '(declare-datatypes ((D 0) (E 0) (F 0)) (((c)) x ((f))))', '(declare-datatypes ((D 0) E) (((c)) ((e))))', '(declare-datatypes ((D 0) ()) (((c)) ((e))))',
    '(declare-datatypes (D) (((c))))', '(declare-datatypes ((D)) (((c))))', '(declare-datatypes (((D) 0)) (((c))))', '(declare-datatypes ((D 0)) (((c))) extra)', '(declare-datatypes ((D 0)) ((c)))',
    '(declare-datatypes ((D 0)) ((((c)))))', '(declare-datatypes ((D 0)) ((())))', '(declare-datatypes ((D 0)) (()))', '(declare-datatypes ((D 0) ; k\n) (((c))))', '(declare-datatypes (; k\n (D 0)) (((c))))',
    '(declare-datatypes ((D 0)) (; k\n ((c))))', '(declare-datatypes ((D 0)) (((c)) ; k\n))', '(declare-datatypes ((D 0)) ((; k\n (c))))', '(declare-datatypes ; k\n ((D 0)) ; l\n (((c))) ; m\n)',
    '(declare-datatypes ((D 0)) ; k\n)', '(declare-datatypes ((L 1)) ((par (X) ((nil) (cons (hd X) (tl (L X)))))))', '(declare-datatypes ((L 1) (D 0)) ((par (X) ((nil) (cons (hd X)))) ((c) (d (s Int)))))',
    '(declare-datatypes ((L 1)) (par (X) ((nil))))', '(declare-datatypes ((L 1)) (((par (X) ((nil))))))', '(declare-datatypes ((L 1)) ((((par (X) ((nil)))))))', '(declare-datatypes (L) ((par (X) ((nil)))))',
    '(declare-datatypes x ((par (X) ((nil)))))', '(declare-datatypes ((L 1)) ((par (X) ((nil)))) extra)', '(declare-datatypes ((L 1)) ((par (X) (nil (cons)))))', '(declare-datatypes ((L 1) (M 1)) ((par (X) ((nil)))))',
    '(declare-datatypes ((|L M| 1)) ((par (|X Y|) ((|nil l| (|s t| |X Y|))))))',
    # let / forall / exists
    '(assert (let ((x 1)) x))', '(assert (let ((x 1) (y (+ 1 2)) (z (f))) (+ x y)))', '(assert (let ((x 1) (y) (z 1 2) w () ((v) 1)) x))', '(assert (let ((x ; c\n 1)) x))', '(assert (let (; c\n (x 1)) x))',
    '(assert (let ; c\n ((x 1)) x))', '(assert (let x y))', '(assert (let))', '(assert (let ()))', '(assert (let ((x 1))))', '(let ((x 1)) x)', '(let ; c\n ((x 1)) x)', '(; c\n let ((x 1)) x)',
    '(assert ((let) ((x 1)) x))', '(assert (let ((|x| 1)) |x|))', '(assert (let ((|| 1)) ||))', '(assert (let ((x (let ((y 1)) y))) (let ((x 2) (z x)) z)))', '(assert (Let ((x 1)) x))',
    '(assert (forall ((x Int)) (> x 0)))', '(assert (forall ((x Int) (y Bool)) (exists ((z Int) (x Real)) y)))', '(assert (forall ((x Int))))', '(assert (forall (x) true))', '(assert (forall ((x)) true))',
    '(assert (forall ((x Int Int)) true))', '(assert (forall x true))', '(assert (forall))', '(assert (forall ; c\n ((x Int)) true))', '(assert (forall ((x ; c\n Int)) true))', '(assert (exists ((x (_ BitVec 8))) true))',
    '(assert (exists ((|a b| Int)) true))', '(assert (lambda ((x Int)) x))', '(assert (match x ((nil 1) ((cons h t) h))))', '(assert (! (> x 0) :named n1))', '(forall ((x Int)) true)', '(exists ; c\n ((x Int)) true)',
    '(define-fun f () Int (let ((a 1)) a))(declare-const g (forall ((q Int)) q))', '(declare-fun h ((let ((p 1)) p)) Int)',
    '(declare-const x Int)(assert (let ((x 2)) (forall ((x Int)) (exists ((x Int)) x))))', '(assert (let ((x (forall ((y Int)) y))) x))',
    # forms only __all_tokens knows
    '(declare-const x (_ BitVec 8))(assert (! (= x #x00) :named _x))', '(assert (! p :pattern (q) :named |n 1|))', '(assert (match y ((nil x) ((cons _x t) _x))))', '(assert ((lambda ((_x (_ BitVec 8))) _x) x))',
    '(define-const _x Int 1)', '(declare-var _x Int)', '(declare-sort _x 0)', '(declare-datatypes (; k\n (D 0)) (((_x))))', '(synth-fun f ((|a b| Int)) Int)', '(declare-const x Int) ; _x\n', '(set-info :source |_x y|)', '(echo "_x")',
    # other commands, other name spaces
    '(declare-sort S 0)', '(define-sort T () Int)', '(declare-sort S 0)(declare-const S S)', '(set-logic ALL)(set-info :status sat)(check-sat)(exit)', '(define-const c Int 1)', '(declare-var x Int)',
    '(declare-codatatypes ((D 0)) (((c))))', '(push 1)(declare-const x Int)(pop 1)(declare-const y Int)', ';\n', '; c\n(declare-const x Int)', 'x', '()', '(())', '((()))', '(; c\n)', '(x)', '(x y)',
    '(declare-const x Int)(declare-const x Bool)(declare-fun x () Real)(define-fun x () Int 1)', '(declare-const |x| Int)(declare-const x Int)', '(declare-const a Int)(declare-const |a| Int)(declare-const ||a|| Int)',
    '(declare-const _x Int)(declare-const x (_ BitVec 8))', '(declare-const x_prefix String)(declare-const |x_suffix| String)(assert (str.contains x "a"))', '(declare-const |x12__fresh| Int)(declare-const x13__fresh Int)',
]


def tokens(text):
    return re.findall(r'\(|\)|"(?:[^"]|"")*"|\|[^|]*\||;[^\n]*\n|[^\s()"|;]+', text)


def fuzz(rng, pool, n):
    atoms = ['x', 'y', '_x', '|x|', '||', '|a b|', '()', '(x)', '((x))', '(x Int)', '0', '; k\n', 'par', 'let', 'forall', 'exists', 'declare-const', 'declare-fun', 'define-fun', 'define-fun-rec',
             'define-funs-rec', 'declare-datatype', 'declare-datatypes', 'Int', '(par (X) ((c (s X))))', '((c (s Int)))', '((D 0))', 'x_prefix', '"s"']
    out = []
    for _ in range(n):
        toks = tokens(rng.choice(pool))
        for _k in range(rng.randrange(1, 4)):
            if not toks:
                break
            i = rng.randrange(len(toks))
            op = rng.randrange(7)
            if op == 0:
                del toks[i]
            elif op == 1:
                toks.insert(i, toks[i])
            elif op == 2:
                j = rng.randrange(len(toks))
                toks[i], toks[j] = toks[j], toks[i]
            elif op == 3:
                toks[i] = rng.choice(atoms)
            elif op == 4:
                toks.insert(i, rng.choice(atoms))
            elif op == 5:
                toks.insert(i, '; k\n')
            else:
                toks[i:i + 1] = ['(', toks[i], ')']
        res, depth = [], 0
        for t in toks:
            for piece in (tokens(t) if t.startswith('(') and len(t) > 1 else [t]):
                if piece == ')':
                    if depth == 0:
                        continue
                    depth -= 1
                elif piece == '(':
                    depth += 1
                res.append(piece)
        out.append(' '.join(res) + ')' * depth)
    return out


def gen_decl_script(rng):
    """A random script of declaring commands of every kind (well formed up to the random comments), with simple and quoted
    names, parametric and mutually recursive datatypes, recursive functions, nested binders."""
    names = ['a', 'b', 'c', 'f', 'g', 'x', 'y', 'z', '_x', '_a', 'x_prefix', 'a_suffix', 'x7__fresh', 'nil', 'cons', 'hd', 'tl', 'par', 'let', 'X', 'D', '|a|', '|x|', '|_x|', '|a b|', '||', '|x_prefix|', '|f;1|', '|g(2)|']
    sorts = ['Int', 'Bool', '(_ BitVec 8)', '(Array Int Int)', 'D', 'X', '(L X)']

    def nm():
        return rng.choice(names)

    def so():
        return rng.choice(sorts)

    def cm():
        return rng.choice(['', '', '', '', '; k\n', ';\n', '; (x y)\n']) if comments else ''

    def sv():
        return f'({cm()}{nm()} {cm()}{so()}{cm()})'

    def svs(k=None):
        return '(' + cm() + ' '.join(sv() + cm() for _ in range(rng.randrange(3) if k is None else k)) + ')'

    def term(d=2):
        r = rng.random()
        if d == 0 or r < .3:
            return rng.choice([nm(), '1', '#b01', 'true'])
        if r < .5:
            return f'(let {cm()}(' + ' '.join(f'({cm()}{nm()} {cm()}{term(d - 1)}{cm()})' for _ in range(rng.randrange(1, 3))) + f') {cm()}{term(d - 1)})'
        if r < .7:
            return f'({rng.choice(["forall", "exists"])} {cm()}{svs(rng.randrange(1, 3))} {term(d - 1)})'
        return f'({rng.choice(["+", "and", "=", "f", "bvadd", "ite"])} {term(d - 1)} {cm()}{term(d - 1)})'

    def constr():
        return f'({cm()}{nm()}{cm()}' + ''.join(' ' + sv() for _ in range(rng.randrange(3))) + ')'

    def dtdec():
        body = '(' + cm() + ' '.join(constr() + cm() for _ in range(rng.randrange(1, 4))) + ')'
        if rng.random() < .4:
            return f'(par {cm()}({" ".join(rng.choice(["X", "Y"]) for _ in range(rng.randrange(1, 3)))}) {cm()}{body})'
        return body

    out = []
    for _ in range(rng.randrange(1, 6)):
        comments = rng.random() < .5
        k = rng.randrange(9)
        if k == 0:
            c = f'(declare-const {cm()}{nm()} {cm()}{so()}{cm()})'
        elif k == 1:
            c = f'(declare-fun {cm()}{nm()} {cm()}(' + ' '.join(so() for _ in range(rng.randrange(3))) + f') {cm()}{so()})'
        elif k == 2:
            c = f'(define-fun {cm()}{nm()} {cm()}{svs()} {cm()}{so()} {cm()}{term()}{cm()})'
        elif k == 3:
            c = f'(define-fun-rec {cm()}{nm()} {cm()}{svs()} {cm()}{so()} {cm()}{term()})'
        elif k == 4:
            n = rng.randrange(1, 4)
            c = f'(define-funs-rec {cm()}(' + ' '.join(f'({cm()}{nm()} {cm()}{svs()} {so()})' + cm() for _ in range(n)) + f') {cm()}(' + ' '.join(term(1) for _ in range(n)) + '))'
        elif k == 5:
            c = f'(declare-datatype {cm()}{nm()} {cm()}{dtdec()}{cm()})'
        elif k == 6:
            n = rng.randrange(1, 4)
            m = n if rng.random() < .8 else rng.randrange(0, 5)
            c = f'(declare-datatypes {cm()}(' + ' '.join(f'({nm()} {rng.randrange(2)})' + cm() for _ in range(n)) + f') {cm()}(' + cm() + ' '.join(dtdec() + cm() for _ in range(m)) + '))'
        elif k == 7:
            c = f'(assert {cm()}{term(3)})'
        else:
            c = rng.choice(['(check-sat)', '(declare-sort S 0)', '(set-logic ALL)', '; top\n', term(2), '(define-sort T () Int)'])
        out.append(c)
    return '\n'.join(out) + '\n'


def other_spelling(name):
    """the spelling is_declared_symbol is meant to identify with [name] (harness' own reading)"""
    if len(name) >= 2 and name[0] == '|' and name[-1] == '|':
        return name[1:-1]
    return '|' + name + '|'


def candidate_names(exprs, nodes, limit=250):
    leaves, seen, ids = [], set(), []
    for n in nodes.dfs(exprs):
        if n.is_leaf():
            if n.data not in seen and len(n.data) < 200:
                seen.add(n.data)
                leaves.append(n.data)
        elif len(ids) < 3:
            ids.append(n.id)
    leaves = leaves[:limit]
    names = []
    for s in leaves:
        names += [s, other_spelling(s), '|' + s + '|', '_' + s, s + '_prefix', s + '_suffix', '|_' + s + '|', s[1:], s[:-1], s[1:-1]]
    names += [f'x{i}__fresh' for i in ids] + ['x123__fresh'] + FIXED
    out, seen = [], set()
    for s in names:
        if s not in seen:
            seen.add(s)
            out.append(s)
    return out


def impl_tables(smtlib):
    sl = getattr(smtlib, '__sort_lookup')
    ot = getattr(smtlib, '__other_symbols')
    dc = getattr(smtlib, '__datatypes_constructors')
    ds = getattr(smtlib, '__datatypes_selectors')
    at = getattr(smtlib, '__all_tokens', None)
    if at is None:
        raise RuntimeError('this ddsmt has no smtlib.__all_tokens: Model/Declared.v describes the repaired collect_information (set VERIF_REPO)')
    return [set(sl.keys()), set(ot), set(k.data for k in dc if k.is_leaf()), set(k.data for k in ds if k.is_leaf()), set(at)]


def compare(impl, model, texts, report, count, alias=True, tokens=True):
    """Compare implementation and model on the texts; report(name, input=, impl=, model=) every difference.
    alias=False is the NEGATIVE CONTROL: the harness then expects the answer without the |x| / x aliasing;
    tokens=False is a second one: the harness then expects the answer of the tables without __all_tokens."""
    smtlib, nodes = impl.smtlib, impl.nodes
    calls, meta = [], []
    for text in texts:
        try:
            exprs = impl.parse(text)
        except Exception as e:  # noqa
            count('declared-symbols texts the reader refuses')
            continue
        try:
            with common.time_limit(20):
                smtlib.collect_information(exprs)
        except Exception as e:  # noqa
            count('declared-symbols texts on which collect_information raises')
            count(f'collect_information raises {type(e).__name__}')
            report('collect_information raises', input=text[:300], impl=f'{type(e).__name__}: {e}', model='(no exception in the model)', soft=True)
            continue
        names, want = [], []
        for s in candidate_names(exprs, nodes):
            try:
                if not tokens:
                    tabs = impl_tables(smtlib)[:4]
                    b = any(t in tb for tb in tabs for t in (s, other_spelling(s) if s != '|' else ''))
                elif alias:
                    b = bool(smtlib.is_declared_symbol(impl.Node(s)))
                else:
                    tabs = impl_tables(smtlib)
                    b = any(s in t for t in tabs)
            except IndexError:
                count('declared-symbols names on which is_declared_symbol raises IndexError (the empty name)')
                continue
            names.append(s)
            want.append(int(b))
        shapes = [w_shape(x) for x in impl.to_shapes(exprs)]
        calls.append((140, [shapes, [w_str(s) for s in names]]))
        meta.append((text, 'is_declared_symbol', names, want))
        tabs = impl_tables(smtlib)
        calls.append((142, shapes))
        meta.append((text, 'tables', None, tabs))
        calls.append((141, shapes))
        meta.append((text, 'union', None, set().union(*tabs)))
        count('declared-symbols texts compared')
        if any(want):
            count('declared-symbols texts with a declared name')
    res = model.batch(calls)
    ndiff = 0
    for (text, kind, names, want), got in zip(meta, res):
        if kind == 'is_declared_symbol':
            count('declared-symbols names compared', len(names))
            count('declared-symbols names the implementation calls declared', sum(want))
            if got != want:
                bad = [(n, w, g) for n, w, g in zip(names, want, got if isinstance(got, list) else [None] * len(names)) if w != g]
                ndiff += 1
                report('is_declared_symbol vs Model/Declared.v is_declared', input=text[:400], impl=repr([(n, w) for n, w, _ in bad][:8]), model=repr([(n, g) for n, _, g in bad][:8]))
        elif kind == 'tables':
            gt = [set(common.r_str(s) for s in t) for t in got] if len(got) == 5 else got
            if gt != want:
                ndiff += 1
                report('tables of collect_information vs Model/Declared.v (sort_lookup, other_symbols, constructors, selectors, all_tokens)', input=text[:400],
                       impl=repr([sorted(t) for t in want])[:600], model=repr([sorted(t) for t in gt] if len(got) == 5 else got)[:600])
        else:
            gu = set(common.r_str(s) for s in got)
            if gu != want:
                ndiff += 1
                report('union of the tables vs Model/Declared.v declared_table', input=text[:400], impl=repr(sorted(want))[:600], model=repr(sorted(gu))[:600])
    return len(calls), ndiff


def corpus(rng, texts, nfuzz=400, ndecl=300):
    base = list(texts) + CORPUS + [gen_decl_script(rng) for _ in range(ndecl)]
    pool = [t for t in base if len(t) < 2000]
    return base + fuzz(rng, pool, nfuzz)


def run(ctx, impl, model, rng, texts, nfuzz=400):
    def report(name, soft=False, **kw):
        if soft:        # an exception of collect_information is no difference between model and implementation
            ctx.count('declared-symbols: ' + name)
            return
        ctx.disagree(name, **kw)

    all_texts = corpus(rng, texts, nfuzz)
    for t in all_texts:
        ctx.case(('declared', t), nontrivial=True)
    ncalls, ndiff = compare(impl, model, all_texts, report, ctx.count)
    ctx.count('declared-symbols model calls', ncalls)
    return ncalls
