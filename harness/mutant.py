"""Handling of seeded changes: confirm (tests pass, demo fails with / passes without the patch in a scratch
worktree), store under /verif/seeded/<name>/, evaluate (apply to /repo, run checks, undo)."""
import json
import os
import shutil
import subprocess
import sys

V = '/verif'


def sh(cmd, cwd=None, timeout=1800):
    p = subprocess.run(cmd, shell=True, cwd=cwd, stdout=subprocess.PIPE, stderr=subprocess.STDOUT, text=True, timeout=timeout)
    return p.returncode, '\n'.join(l for l in p.stdout.split('\n') if 'conda' not in l.lower())


def demo_cmd(d, root):
    if os.path.exists(os.path.join(d, 'demo.py')):
        return f'/venv/bin/python {d}/demo.py {root}'
    return f'sh {d}/demo.sh {root}'


def confirm(name, wt):
    """name: e.g. C07-a ; wt: worktree with MUTANT/ and the patch applied"""
    m = os.path.join(wt, 'MUTANT')
    dst = os.path.join(V, 'seeded', name)
    os.makedirs(dst, exist_ok=True)
    rc, _ = sh(f'git -C {wt} diff -- ddsmt bin > {dst}/patch.diff')
    for f in os.listdir(m):
        if f != 'patch.diff':
            shutil.copy(os.path.join(m, f), dst)
    ran = []
    rc1, out1 = sh('/venv/bin/python -m pytest -q -p no:cacheprovider 2>&1 | tail -1', cwd=wt)
    ran.append(f'tests with patch: {out1.strip()}')
    rc2, out2 = sh(demo_cmd(dst, wt), cwd='/tmp')
    ran.append(f'demo with patch: exit {rc2}: {out2.strip()[-300:]}')
    sh(f'git -C {wt} apply -R {dst}/patch.diff')
    rc3, out3 = sh(demo_cmd(dst, wt), cwd='/tmp')
    ran.append(f'demo without patch: exit {rc3}: {out3.strip()[-200:]}')
    sh(f'git -C {wt} apply {dst}/patch.diff')
    ok = '117 passed' in out1 and rc2 != 0 and rc3 == 0
    meta = {}
    try:
        meta = json.load(open(os.path.join(dst, 'meta.json')))
    except Exception:  # noqa
        pass
    meta['confirmed'] = ok
    meta['confirmation'] = ran
    json.dump(meta, open(os.path.join(dst, 'meta.json'), 'w'), indent=1)
    print(name, 'CONFIRMED' if ok else 'NOT CONFIRMED')
    for r in ran:
        print('  ', r)
    return ok


def evaluate(name, checks, tier='--quick'):
    dst = os.path.join(V, 'seeded', name)
    rc, out = sh(f'git -C /repo status --short')
    if out.strip():
        print('refusing: /repo is dirty'); return
    rc, out = sh(f'git -C /repo apply {dst}/patch.diff')
    if rc != 0:
        print('patch does not apply:', out); return
    res = {}
    try:
        for c in checks:
            rc, out = sh(f'./check {c} {tier}', cwd=V, timeout=3600)
            lines = [l for l in out.split('\n') if l.startswith('VIOLATION') or l.startswith('[')]
            res[c] = dict(exit=rc, lines=lines[:4])
            print(name, c, 'exit', rc, '|', ' | '.join(lines[:3])[:400])
    finally:
        sh('git -C /repo checkout -- .')
        sh('git -C /repo clean -fdq -- ddsmt bin')
    meta = json.load(open(os.path.join(dst, 'meta.json')))
    meta.setdefault('detected_by', {}).update({c: (r['exit'] != 0) for c, r in res.items()})
    meta.setdefault('check_output', {}).update(res)
    json.dump(meta, open(os.path.join(dst, 'meta.json'), 'w'), indent=1)


if __name__ == '__main__':
    if sys.argv[1] == 'confirm':
        confirm(sys.argv[2], sys.argv[3])
    else:
        evaluate(sys.argv[2], sys.argv[3].split(','), sys.argv[4] if len(sys.argv) > 4 else '--quick')
