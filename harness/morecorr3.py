"""TIE-C for Model/OracleRw.v (dispatch 120-127): ArithmeticStrengthenRelation, BoolXORRemoveConstant, FPShortSort,
StringSimplifyConstant (local mutations), RemoveDatatypeIdentity, Constants and ReplaceByVariable (inc and dec), compared with
filter + mutations of the implementation on every node of the given texts, of targeted well-formed texts, of a malformed
corpus per mutator, of nodes no reader produces and of random edits of all of these.

What the implementation keeps in module tables reaches the model as oracle arguments computed HERE WITH THE IMPLEMENTATION for
the very node: the items of __datatypes_selectors and the keys of __datatypes_constructors (nodes), is_definition_node(node),
get_sort(node), get_default_constants(sort) (or the fact that it raises) and get_variables_with_sort(sort) minus the defined
functions, in the implementation's order.  smtlib.is_const is modelled.  An exception escaping filter or mutations (a
generator is consumed completely) is the model's None."""
import common
from common import w_shape, w_shapes, w_str

CODES = {'ArithmeticStrengthenRelation': 120, 'BoolXORRemoveConstant': 121, 'FPShortSort': 122, 'StringSimplifyConstant': 123,
         'RemoveDatatypeIdentity': 124, 'Constants': 125, 'ReplaceByVariable (inc)': 126, 'ReplaceByVariable (dec)': 127}

COMMANDS = ('(declare-', '(define-', '(assert', '(set-', '((declare')
RELS = ['=', '<', '>', '<=', '>=', 'distinct', '!=', '<>']

DT_DECLS = ('(declare-datatype Color ((red) (green) (blue)))'
            '(declare-datatype Pair ((mk (fst Int) (snd Bool)) (mk3 (a1 Int) (a2 Int) (a3 Color)) (none)))'
            '(declare-datatypes ((Tree 0) (Lst 0)) (((leaf (val Int)) (node (left Tree) (right Tree) (kids Lst))) ((nil) (cons (head Tree) (tail Lst)))))'
            '(declare-datatype D ((A (s Int)) (B (x Bool) (s Int))))'
            '(declare-const p Pair)(declare-const p2 Pair)(declare-const c Color)(declare-const c0 Color)(declare-const t Tree)(declare-const l Lst)'
            '(declare-const i Int)(declare-const b Bool)(declare-const d D)')

MALFORMED = {
    'ArithmeticStrengthenRelation': [
        '(<)', '(<=)', '(>=)', '(>)', '(distinct)', '(=)', '(< a)', '(<= a)', '(>= (f))', '(<= a b c d)', '((<) a b)', '((<=) a b)', '<', '<=', '(<= ())',
        '(<= () ())', '(=< a b)', '(=> a b)', '(< = >)', '(<= <= <=)', '(distinct distinct)', '(!= a b)', '(<> a b)', '(!=)', '(== a b)', '(|<| a b)',
        '(|<=| a b)', '("<" a b)', '(<= "a" "b")', '(<= ; c\n a b)', '(Distinct a b)', '(>= (>= a b) (<= c d))', '(not (<= a b))', '(<=a b)', '(< (<) (<=))'],
    'BoolXORRemoveConstant': [
        '(xor)', '(xor true)', '(xor false)', '(xor true false)', '(xor false true)', '(xor true true)', '(xor false false)', '(xor true false true false)',
        '(xor a)', '(xor a b)', '((xor) true a)', '(xor (true) a)', '(xor (false) (true))', '(xor () true)', '(xor xor true)', '(xor True a)', '(xor FALSE a)',
        '(xor |true| a)', '(xor "true" a)', '(xor true ; c\n a)', 'xor', '(true xor a)', '(false true)', '(xor a (xor true b) false)', '(xor (xor true) (xor false))',
        '(xor a true b true c)', '(xor a false b false c)', '(xor a b c d e true)', '(xor false a b c d e)', '(Xor true a)', '(xor true1 a)', '(xor false_ a)',
        '(xor (not true) a)', '(or true a)', '(xor (xor) true)'],
    'FPShortSort': [
        '(_ FloatingPoint 5 11)', '(_ FloatingPoint 8 24)', '(_ FloatingPoint 11 53)', '(_ FloatingPoint 15 113)', '(_ FloatingPoint 5 24)', '(_ FloatingPoint 8 11)',
        '(_ FloatingPoint 05 11)', '(_ FloatingPoint 5 011)', '(_ FloatingPoint 5)', '(_ FloatingPoint)', '(_ FloatingPoint 5 11 0)', '(_ FloatingPoint (5) 11)',
        '(_ FloatingPoint 5 (11))', '(_ FloatingPoint () ())', '(_ (FloatingPoint) 5 11)', '((_) FloatingPoint 5 11)', '(x FloatingPoint 5 11)', '(_ floatingpoint 5 11)',
        '(_ FloatingPoint 11 5)', '(_ FloatingPoint 15 53)', '(_ FloatingPoint 16 113)', '(_ FloatingPoint |5| 11)', '(_ FloatingPoint "5" "11")', '(_ FloatingPoint 5 ; c\n 11)',
        '(_ FloatingPoint +5 11)', '(_ FloatingPoint 5.0 11)', '(_ BitVec 5 11)', 'Float16', 'Float32', 'Float64', 'Float128', 'Float', 'Float8', 'Float1', 'Float160',
        'Floaty16', 'float16', '(Float16)', '(_ Float16)', '(_ FloatingPoint Float16 11)', '(_ FloatingPoint 8 24) (_ FloatingPoint 8 24)', 'FloatingPoint',
        '(_ FloatingPoint (_ FloatingPoint 5 11) (_ FloatingPoint 8 24))', '(FloatingPoint 5 11)', '(_ FloatingPoint 5 11'],
    'StringSimplifyConstant': [
        '""', '"a"', '"ab"', '"abc"', '"abcd"', '"abcdefgh"', '"abcdefghi"', '"abcdefghijklmnopqrstuvwxyz"', '""""', '""""""', '"a""b"', '"""a"', '"a"""', '"a""""b"',
        '"ab""cd""ef"', '"\\"', '"\\\\"', '"\\\\\\"', '"a\\b"', '"\\u{1}"', '"\\u{10FFFF}"', '"ab\\u{1F600}cd"', '"\\u{41}\\u{42}\\u{43}\\u{44}"', '"\\x41"', '"a\\x41b\\x42c"',
        '"\\u0041"', '"abcdefg\\u{5C}"', '"\\abcdefghijklmnop"', '"abcdefgh\\ijklmnop"', '"0123456\\89abcdef"', '"01234567\\9abcdef"', '"012345678\\abcdef"',
        '"0123\\""56789"', '"01""34""67""9a""cd"', '"""""""""""""""""', '"\\""\\""\\""\\""', '"a b"', '"a\nb"', '"a\tb"', '"(a)"', '";a"', '"|a|"', '" "', '"é"', '"aébécédé"',
        '"\\u{d7ff}\\u{e000}"', '"a', 'a"', '"a"b"', '"', 'x"a"', '("a")', '("")', '"" ""', '"ab" "cd"', '"abcdefghijklmnop" "q"', '"\\\\\\\\\\\\\\\\\\\\\\\\"',
        '"aaaaaaaaaaaaaaaaaaaaaaaaaaaaaaaaaaaaaaaaaaaaaaaaaaaaaaaaaaaaaaaaaaaaaaaa"', '"a\\u{1}b\\u{2}c\\u{3}d\\u{4}e\\u{5}f\\u{6}g\\u{7}h\\u{8}i"'],
    'RemoveDatatypeIdentity': [
        DT_DECLS + m for m in [
            '(assert (fst))', '(assert (fst (mk)))', '(assert (fst (mk 1)))', '(assert (snd (mk 1)))', '(assert (snd (mk 1 true)))', '(assert (snd (mk 1 true extra)))',
            '(assert (fst (mk 1 true) extra))', '(assert (fst mk))', '(assert (fst (mk3 1 2 c)))', '(assert (a3 (mk 1 true)))', '(assert (a3 (mk3 1 2)))',
            '(assert (a3 (mk3 1 2 c)))', '(assert (a2 (mk3 (a1 (mk3 1 2 c)) (a2 (mk3 3 4 c)) c)))', '(assert ((fst) (mk 1 true)))', '(assert (fst ((mk) 1 true)))',
            '(assert (fst ()))', '(assert (fst (())))', '(assert (fst (fst (mk 1 true))))', '(assert (mk (fst 1) true))', '(assert (fst (none)))', '(assert (fst none))',
            '(assert (red (mk 1 true)))', '(assert (fst (red)))', '(assert (fst (red 1 2)))', '(assert (s (A 1)))', '(assert (s (B true 2)))', '(assert (x (B true 2)))',
            '(assert (x (A 1)))', '(assert (val (leaf 1)))', '(assert (kids (node t t l)))', '(assert (right (node t t)))', '(assert (tail (cons t l)))',
            '(assert (head (cons t)))', '(assert (head (nil)))', '(assert (|fst| (mk 1 true)))', '(assert (fst (|mk| 1 true)))', '(assert (fst "mk"))',
            '(assert (fst ; c\n (mk 1 true)))', '(assert (fst (mk ; c\n 1 true)))', '(assert (Fst (mk 1 true)))', '(assert ((_ is mk) p))', '(assert (fst (as mk Pair)))']
    ] + [
        '(declare-datatype X (((c) (s Int))))(assert (s ((c) 1)))(assert ((c) 1))', '(declare-datatype X ((c ((s) Int))))(assert ((s) (c 1)))(assert (s (c 1)))',
        '(declare-datatype X ((c (s))))(assert (s (c 1)))', '(declare-datatype X ((c s)))(assert (s (c 1)))', '(declare-datatype X ((c ())))(assert (s (c 1)))',
        '(declare-datatype X (c (s Int)))(assert (s (c 1)))(assert (Int (s 1)))', '(declare-datatype X c)(assert (s (c 1)))', '(declare-datatype X)(assert (s (c 1)))',
        '(declare-datatype X ((c (s Int))) extra)(assert (s (c 1)))', '(declare-datatype (X) ((c (s Int))))(assert (s (c 1)))', '(declare-datatype X ((c (c Int))))(assert (c (c 1)))',
        '(declare-datatype X ((c (s Int) (s Bool))))(assert (s (c 1 true)))', '(declare-datatype X ((c (s Int))))(declare-datatype Y ((e (s Bool))))(assert (s (c 1)))(assert (s (e true)))',
        '(declare-datatype X ((c (s Int)) (c (t Int) (s Int))))(assert (s (c 1)))(assert (s (c 1 2)))(assert (t (c 1 2)))',
        '(declare-datatypes ((List 1)) ((par (T) ((nil) (cons (head T) (tail (List T)))))))(declare-const q (List Int))(assert (= (head (cons 1 q)) 1))(assert (cons (nil) 1))(assert (T (par)))',
        '(declare-datatypes ((X 0) (Y 0)) (((c (s Int)))))(assert (s (c 1)))', '(declare-datatypes ((X 0)) (((c (s Int))) ((e (u Int)))))(assert (u (e 1)))',
        '(declare-datatypes (X) (((c (s Int)))))(assert (s (c 1)))', '(declare-datatypes ((X 0)) ((c (s Int))))(assert (s (c 1)))', '(declare-datatypes () ())(assert (s (c 1)))',
        '(declare-datatypes ((X 0)) (c))(assert (s (c 1)))', '(declare-datatypes ((X 0) ()) (((c (s Int))) ((e))))(assert (s (c 1)))', '(declare-datatypes x y)(assert (s (c 1)))',
        '(declare-datatypes ((X 0)) (((c (s Int)))) extra)(assert (s (c 1)))', '((declare-datatype) X ((c (s Int))))(assert (s (c 1)))',
        '(declare-datatype X ((c (s Int))))(declare-const s Int)(declare-const c Int)(assert (= s c))(assert (s (c s)))(assert (let ((s 1)) (s (c s))))',
    ],
    'Constants': [
        '(declare-const x Int)(assert (= x 0 1 2))', '(declare-const x Int)(declare-const x Bool)(assert (= x 0))', '(declare-const)(declare-const x)(declare-const (x) Int)',
        '(declare-const x (Int))(assert x)', '(declare-const x ())(assert x)', '(declare-const x (_ BitVec))(assert x)', '(declare-const x (_ BitVec 3 4))(assert x)',
        '(declare-const x (_ BitVec y))(assert (= x x))', '(declare-const x (_ BitVec (3)))(assert x)', '(declare-const x (_ BitVec -3))(assert x)',
        '(declare-const x (_ FloatingPoint))(assert x)', '(declare-const x (_ FloatingPoint 5))(assert x)', '(declare-const x (_ FloatingPoint a b))(assert (= x x))',
        '(declare-const x (_ FloatingPoint 5 b))(assert x)', '(declare-const x (_ FloatingPoint (5) 11))(assert x)', '(declare-const x (_ FloatingPoint 5 (11)))(assert x)',
        '(declare-const x (_ FloatingPoint 5 0))(assert x)', '(declare-const x (_ FloatingPoint 0 0))(assert x)', '(declare-const x (_ FloatingPoint -1 3))(assert x)',
        '(declare-const x (_ FloatingPoint 1_0 1_1))(assert x)', '(declare-const x (_ FloatingPoint 2 3))(assert (= x (fp (_ bv0 1) (_ bv0 2) (_ bv0 2)) (fp (_ bv1 1) (_ bv3 2) (_ bv1 2))))',
        '(declare-const x Float16)(assert (= x (fp (_ bv0 1) (_ bv0 5) (_ bv0 10)) (fp #b0 #b00000 #b0000000000)))', '(declare-const x Float)(assert x)', '(declare-const x Float1)(assert x)',
        '(declare-const x Float160)(assert x)', '(declare-const x (Float16))(assert x)', '(declare-const x (Set))(assert x)', '(declare-const x (Set Int Int))(assert x)',
        '(declare-const x (Set (Set Bool)))(assert (= x (as emptyset (Set (Set Bool))) (singleton (as emptyset (Set Bool)))))', '(declare-const x (Set (_ FloatingPoint a b)))(assert x)',
        '(declare-const x (Set ()))(assert x)', '(declare-const x (Set Unknown))(assert x)', '(declare-const x (set Int))(assert x)', '(declare-const x Bool)(assert (and x true false (not x)))',
        '(declare-const x Real)(assert (= x 0.0 1.0 0 1 0.00 (/ 1 2)))', '(declare-const x bool)(assert x)', '(declare-const x |Bool|)(assert x)', '(declare-const x "Bool")(assert x)',
        '(declare-const x (Array Int Bool))(assert (select x 0))(assert (= (store x 1 true) x))', '(declare-const x (Array Int))(assert (select x 0))', '(declare-const x (Array))(assert (select x))',
        '(assert (ite))(assert (ite a))(assert (ite a b))(assert (ite true 1 2))', '(assert (+))(assert (+ 1))(assert (+ 1.5 x))(assert (- x))', '(assert (fp))(assert (fp a))(assert (fp a b c))(assert (fp #b0 #b00 #b000))(assert (fp #b0 #b00))',
        '(assert ((_ to_fp 5 11) x))(assert ((_ to_fp 5) x))(assert ((_ to_fp a b) x))(assert ((_ to_fp_unsigned 8 24) RNE x))', '(assert ((_ zero_extend x) #b1))(assert ((_ extract 3 1) #b1111))(assert ((_ extract 1 3) #b1111))',
        '(assert (_ bv0 0))(assert (_ bv1 1))(assert (_ bv0 x))(assert (_ bv0 (1)))(assert (_ bv0 1 2))(assert (_ bvx 4))(assert (= #b #x #b0 #b1 #x0 #x1))',
        '(define-fun f () Int 0)(define-fun g ((a Int)) Int a)(assert (= f (g 0) (g f)))', '(define-fun f ((a Int) (a Bool)) Int a)(assert (f 1 true))', '(define-fun f () Int)(assert f)',
        '(define-fun f Int Int 0)(assert f)', '(define-fun (f) () Int 0)(assert (f))', '(declare-fun f () Int)(declare-fun g (Int) Int)(declare-fun h Int Int)(assert (= f (g f) h))',
        DT_DECLS + '(assert (= c red green c0))(assert (= p none (mk 0 false) (none)))(assert (= l nil))(assert (= t (leaf 0)))',
        '(declare-datatype E ((e1) (e1) (e2)))(declare-const x E)(assert (= x e1 e2))', '(declare-datatype (E) (((e1)) (e2)))(declare-const x (E))(assert (= x e1 (e1) e2))',
        '(assert (let ((x 1) (y true) (z (f))) (= x y z)))(assert (x y z))', '(assert (forall ((x Int) (y (_ BitVec 2)) (z)) (= x y z)))', '(assert (exists (x) x))(assert (exists ((x)) x))(assert (let (x) x))',
        '(assert (let ((x 1)) (let ((x true)) x)))', '(assert (= 8 ((_ extract 8 8) x) (_ bv8 8)))(assert (= (_ bv8 8) 8))', '(assert (_ x 1 2 3))(assert (= 1 2 3))', '(assert (! x :named 0))',
        '(set-logic QF_BV)(set-info :status sat)(set-option :produce-models true)(check-sat)(get-model)(exit)', '(assert true)(assert false)(assert 0)(assert 1)(assert 0.0)(assert 1.0)(assert (_ bv0 8))',
    ],
    'ReplaceByVariable': [
        '(declare-const b Int)(declare-const a Int)(declare-const c Int)(assert (= a b c (+ a b) 5 (- 5)))', '(declare-const a Int)(declare-const a Int)(assert (= a a))',
        '(declare-const a Int)(declare-const a Bool)(declare-const b Int)(declare-const c Bool)(assert (= a b c))', '(declare-const a Int)(define-fun a () Int 3)(declare-const b Int)(assert (= a b))',
        '(define-fun a () Int 3)(declare-const a Int)(declare-const b Int)(assert (= a b))', '(declare-const a Int)(declare-fun b () Int)(declare-fun c (Int) Int)(define-fun d () Int 1)(define-fun e ((x Int)) Int x)(assert (= a b (c a) d (e a) x))',
        '(declare-const a (_ BitVec 8))(declare-const b (_ BitVec 8))(declare-const c (_ BitVec 08))(declare-const d (_ BitVec 4))(assert (= a b c (concat d d) #x00 (_ bv1 8) ((_ zero_extend 4) d)))',
        '(declare-const a (_ FloatingPoint 5 11))(declare-const b Float16)(declare-const c (_ FloatingPoint 5 11))(assert (= a b c (fp #b0 #b00000 #b0000000000) (fp.add RNE a c) (fp.neg b)))',
        '(declare-const a Real)(declare-const b Real)(assert (= a b (/ 1 2) (/ a 2) (/ 1 b) (/ 1 2 3) (/ 1) (/) (/ 1.0 2) 1.5 (- 1.5)))', '(declare-const a String)(declare-const b String)(assert (= a b "a" "" (str.++ a b)))',
        '(declare-const a Int)(declare-const b Int)(assert (let ((a 1) (c b)) (= a b c)))(assert (forall ((b Int) (d Int)) (= a b d)))', '(declare-const a Int)(assert (let ((a true)) a))(assert a)',
        '(declare-const |a| Int)(declare-const a Int)(declare-const |a b| Int)(declare-const || Int)(assert (= a |a| |a b| ||))', '(declare-const A Int)(declare-const a Int)(declare-const _ Int)(declare-const ~ Int)(declare-const é Int)(assert (= A a _ ~ é))',
        '(declare-const x1 Int)(declare-const x10 Int)(declare-const x2 Int)(declare-const x Int)(declare-const x01 Int)(assert (= x x1 x10 x2 x01))',
        '(declare-const a Int)(declare-const ab Int)(declare-const abc Int)(declare-const b Int)(assert (= a ab abc b))', '(declare-const a)(declare-const (a) Int)(declare-const a Int Int)(assert a)',
        '(declare-const true Bool)(declare-const 5 Int)(declare-const #b1 Bool)(declare-const "s" Int)(declare-const x Int)(declare-const y Bool)(assert (= true 5 #b1 "s" x y))',
        '(declare-const a Unknown)(declare-const b Unknown)(declare-const c (Unknown))(declare-const d (Unknown))(assert (= a b c d))', '(declare-const a ())(declare-const b ())(assert (= a b))',
        '(assert (fp))(assert (fp x))(assert fp)(assert ((fp) x))(assert (_ bv1 1))(assert (_ bv1))(assert (_ bv 1))(assert (_ (bv1) 1))(assert (_ bx1 1))(assert (x bv1 1))',
        '(declare-const a Int)(declare-const b Int)(assert (= (/ 1 2) (/ a b) (/ 1 b) (/ 01 00) (/ 1 2.0) (/ "1" 2) (/ |1| 2) (/ (1) 2) (div 1 2)))',
        DT_DECLS + '(assert (= c c0 red))(assert (= p p2 none (mk i b)))(assert (= (fst p) i))(assert (= l (tail l)))',
        '(declare-const a Int)(declare-const b Int)(assert (! (= a b) :named a))(assert (= a ; b\n b))', '(declare-fun a () Int)(declare-fun b () Int)(declare-fun c () (Int))(declare-fun d (Int) Int)(assert (= a b c (d a)))',
        '(define-fun a () Int b)(define-fun b () Int a)(declare-const c Int)(assert (= a b c))', '(declare-const a Int)(define-fun f ((a Int) (b Int)) Int (+ a b))(declare-const b Int)(assert (= (f a b) a))',
        '(declare-const b (Array Int Int))(declare-const a (Array Int Int))(declare-const c (Array Int Bool))(assert (= a b (store a 0 1)))(assert (= (select a 0) (select c 0)))',
        '(declare-const a Bool)(declare-const b Bool)(assert (and a b (not a) (=> a b) (xor a b true)))', '(declare-const a Int)(assert (= a ()))(assert (= a (())))(assert (a))(assert ((a)))',
    ],
}

# nodes that the reader does not produce: empty leaves, white space or quotes inside atoms, one quote alone ...
SHAPES = [
    '', ('',), ('', ''), '"', '""', '"""', '""""', '"a', 'a"', '"a"\n', '"a\n"', ' "a"', '"a" ', '"\\', '\\"', '"\\u{', '"ab""', '"""ab"', '"a"b"', '12\n', '1.5\n', '12\n\n', '\n', 'true\n',
    '#b01\n', ('/', '1', '2\n'), ('/', '1\n', '2'), ('/', '', '2'), ('/', '1', ''), ('/', '1 ', '2'), ('_', 'bv1', ''), ('_', 'bv', ''), ('_', '', '1'), ('_', 'bv1\n', '1'), ('', 'bv1', '1'),
    ('fp',), ('fp', ''), ('fp ', 'a'), ('', 'a'), ('xor', ''), ('xor', 'true', ''), ('xor', 'true\n', 'false '), ('xor ', 'true'), ('', 'true'), ('<=', ''), ('<=', '', ''), ('<= ', 'a', 'b'),
    ('', 'a', 'b'), ('_', 'FloatingPoint', '', ''), ('_', 'FloatingPoint', '5', ''), ('_', 'FloatingPoint', '5\n', '11'), ('_', 'FloatingPoint ', '5', '11'), ('', 'FloatingPoint', '5', '11'),
    ('_', '', '5', '11'), 'Float', 'Float16\n', 'Float 16', ('=', '', ''), ('=', ('',), ''), ('not', ''), '"' * 9, '"' * 10, '"' + 'a' * 7 + '\\' + '"', '"\\' + 'a' * 7 + '"', '"\\' + 'a' * 8 + '"',
    '"' + 'a' * 8 + '\\' + 'b' * 8 + '"', '"' + '\\' * 16 + '"', '"' + '\\' * 17 + '"', '"' + 'a"' * 9, '"' + '""' * 9 + '"', '"' + 'a""' * 9 + '"',
]

POOL = ['<', '<=', '>=', '>', '=', 'distinct', 'xor', 'true', 'false', '_', 'FloatingPoint', '5', '11', '8', '24', '53', '113', 'Float16', 'Float32', '"ab\\u{41}cd""ef"', '""', '"x"',
        'fst', 'snd', 'mk', 'mk3', 'a3', 'none', 'red', 's', 'A', 'B', 'p', 'c', 'i', 'b', '0', '1', '0.0', '#b1', 'fp', '/', 'bv0', 'bv1', 'BitVec', (), ('mk', '1', 'true'), ('mk3', '1', '2', 'c'),
        ('_', 'bv0', '8'), ('_', 'FloatingPoint', '8', '24'), ('xor', 'true', 'b'), ('<=', 'i', '1'), ('/', '1', '2'), ('fp', ('_', 'bv0', '1'), ('_', 'bv0', '5'), ('_', 'bv0', '10'))]


def string_texts(rng, n):
    """string literals made of plain characters, escape sequences of every spelling, doubled quotes and backslashes"""
    pieces = ['a', 'b', 'c', 'xyz', ' ', '0', '\\u{1F}', '\\u{1f600}', '\\u{10FFFF}', '\\u{0}', '\\x41', '\\x7f', '\\u0041', '\\ud7ff', '""', '""""', '\\', '\\\\', '\\u', '\\u{', '}', '{',
              '\\x', 'é', 'ü', '\U0001d4b3', '(', ')', ';', '|', '\\n', '\t']
    out = []
    for _ in range(n):
        k = rng.choice([0, 1, 2, 3, 4, 5, 6, 8, 10, 14, 20, 30])
        body = ''.join(rng.choice(pieces) for _ in range(k))
        out.append(f'(assert (= s "{body}"))')
    for k in range(0, 40):
        out.append('(assert (= s "' + 'a' * k + '\\u{1F600}' + 'b' * (39 - k) + '"))')
        out.append('(assert (= s "' + 'a' * k + '""' + 'b' * (k % 7) + '"))')
    return ['(declare-const s String)' + ''.join(out[i:i + 40]) for i in range(0, len(out), 40)]


def targeted(rng):
    """well-formed inputs aimed at each mutator"""
    out = []
    decl = ('(declare-const i Int)(declare-const j Int)(declare-const k Int)(declare-const r Real)(declare-const q Real)(declare-const p Bool)(declare-const o Bool)'
            '(declare-const x (_ BitVec 4))(declare-const y (_ BitVec 4))(declare-const s String)(declare-const t String)')
    # relations of all kinds and arities, over Int, Real, BV, String, nested under not / and
    ts = []
    for rel in RELS + ['bvult', 'str.<=', '=>']:
        for args in ('i j', 'i j k', 'i 0', '0 i', 'r q', 'r 1.5', '(+ i 1) (* 2 j)', 'x y', 's t', 'i', '(- i) (- j) (- k) 0'):
            ts.append(f'(assert ({rel} {args}))')
        ts.append(f'(assert (not ({rel} i j)))(assert (and ({rel} i j) ({rel} j k) (or ({rel} r q) p)))(assert (= ({rel} i j) ({rel} j i)))')
    out.append(decl + ''.join(ts))
    # xor with true / false at every position
    ts = []
    atoms = ['true', 'false', 'p', 'o', '(xor p true)', '(not false)']
    for n in range(0, 5):
        for _ in range(40 if n > 1 else 8):
            ts.append('(assert (xor ' + ' '.join(rng.choice(atoms) for _ in range(n)) + '))')
    for n in range(1, 5):
        for pos in range(n):
            for cst in ('true', 'false'):
                ts.append('(assert (xor ' + ' '.join(cst if m == pos else 'p' for m in range(n)) + '))')
    out.append(decl + ''.join(ts))
    # all spellings of floating-point sorts, as sorts of constants, of bound variables, in to_fp and as
    ts = []
    ebs, sbs = ['5', '8', '11', '15', '2', '3'], ['11', '24', '53', '113', '3', '5']
    n = 0
    for eb in ebs:
        for sb in sbs:
            n += 1
            ts.append(f'(declare-const f{n} (_ FloatingPoint {eb} {sb}))(declare-fun g{n} ((_ FloatingPoint {eb} {sb}) Float32) (_ FloatingPoint {sb} {eb}))')
            ts.append(f'(assert (forall ((v{n} (_ FloatingPoint {eb} {sb}))) (fp.eq v{n} f{n} ((_ to_fp {eb} {sb}) RNE 1.5) (as f{n} (_ FloatingPoint {eb} {sb})))))')
    for nm in ('Float16', 'Float32', 'Float64', 'Float128'):
        ts.append(f'(declare-const h{nm} {nm})(assert (fp.isNaN h{nm}))(define-fun d{nm} ((a {nm})) {nm} (fp.neg a))')
    out.append(''.join(ts))
    out += string_texts(rng, 240)
    # datatypes: several constructors and selectors, (sel (cons ..)) at every selector, mismatching constructors, nesting
    ts = ['(assert (= (fst (mk i b)) i))', '(assert (snd (mk i b)))', '(assert (= (a1 (mk3 1 2 c)) (a2 (mk3 i 2 c)) 3))', '(assert (= (a3 (mk3 1 2 c)) c))', '(assert (= (fst (mk3 1 2 c)) i))',
          '(assert (= (a3 (mk i b)) c))', '(assert (= (a1 (mk i b)) (a2 (mk i b))))', '(assert (= (val (leaf 3)) (val (left (node t t nil)))))', '(assert (= (right (node (leaf 1) (leaf 2) nil)) t))',
          '(assert (= (kids (node t t (cons t nil))) nil))', '(assert (= (head (cons t nil)) (left (node t t nil))))', '(assert (= (tail (cons t nil)) nil))',
          '(assert (= (fst p) (fst (mk (fst (mk 1 true)) (snd (mk 2 false))))))', '(assert (= (fst none) (fst p2)))', '(assert (= (s (A 1)) (s (B true 2)) (s d)))', '(assert (x (B (x (B true 1)) 2)))',
          '(assert (= (fst (ite b (mk 1 true) p)) 1))', '(assert (= (a2 (mk3 (a1 (mk3 5 6 red)) (a2 (mk3 7 8 green)) (a3 (mk3 9 10 blue)))) 8))', '(assert ((_ is mk) (mk (fst p) (snd p))))',
          '(assert (= c (a3 (mk3 0 0 (a3 (mk3 1 1 (a3 (mk3 2 2 c))))))))', '(assert (= (left (node (left (node t t l)) (right (node t t l)) (kids (node t t l)))) t))']
    out.append(DT_DECLS + ''.join(ts))
    # terms of every sort, with and without variables of that sort; names ordered around the names used (inc / dec)
    names = ['m', 'a', 'z', 'M', 'mm', 'm0', 'l', 'n', '_m', '|m|', '|a b|', 'é', 'ma', 'lz', '～', '\U0001d4b3', 'm～', 'm\U0001d4b3', '~', '0m'.replace('0', 'O')]
    sorts = {'Int': ['0', '1', '7', '(+ {v} 1)', '(- {v})', '(ite p {v} 2)', '(str.len s)'], 'Real': ['0.0', '1.0', '1.5', '(/ 1 2)', '(/ {v} 2.0)', '(+ {v} 1.5)', '(to_real 1)'],
             'Bool': ['true', 'false', '(not {v})', '(and {v} {v})', '(= 1 2)'], '(_ BitVec 4)': ['#b0000', '#x1', '(_ bv0 4)', '(_ bv1 4)', '(_ bv3 4)', '(bvadd {v} #b0001)', '((_ extract 3 0) (concat {v} {v}))'],
             '(_ BitVec 1)': ['#b0', '#b1', '(_ bv0 1)', '(bvcomp {v} {v})'], '(_ FloatingPoint 5 11)': ['(fp (_ bv0 1) (_ bv0 5) (_ bv0 10))', '(fp #b1 #b11111 #b0000000001)', '(fp.add RNE {v} {v})', '(fp.neg {v})'],
             'Float32': ['(fp (_ bv0 1) (_ bv0 8) (_ bv0 23))', '(fp.abs {v})', '((_ to_fp 8 24) RNE 1.0)'], '(_ FloatingPoint 8 24)': ['(fp (_ bv1 1) (_ bv255 8) (_ bv0 23))', '(fp.sqrt RNE {v})'],
             'String': ['""', '"a"', '(str.++ {v} "b")'], '(Array Int Int)': ['(store {v} 0 1)'], '(Set Int)': ['(as emptyset (Set Int))', '(singleton 0)', '(singleton 1)', '(union {v} {v})'],
             '(Set Bool)': ['(as emptyset (Set Bool))', '(singleton false)', '(singleton true)'], 'RoundingMode': ['RNE', 'RTZ'], 'U': []}
    for sort, terms in sorts.items():
        for with_vars in (True, False):
            ns = list(names)
            rng.shuffle(ns)
            ns = ns[:rng.randint(4, len(ns))] if with_vars else []
            ts = ['(declare-const p Bool)(declare-const s String)(declare-sort U 0)(declare-const other Int)(declare-const w OtherSort)']
            for nm in ns:
                ts.append(rng.choice([f'(declare-const {nm} {sort})', f'(declare-fun {nm} () {sort})']))
            if ns:
                ts.append(f'(define-fun dd () {sort} {ns[0]})(define-fun ee ((aa {sort})) {sort} aa)(declare-fun ff ({sort}) {sort})')
            vs = ns or ['unknown']
            ts.append('(assert (= ' + ' '.join(vs) + ' dd (ee ' + vs[0] + ') (ff ' + vs[-1] + ')))')
            for tm in terms:
                ts.append('(assert (= ' + tm.replace('{v}', rng.choice(vs)) + ' ' + rng.choice(vs) + '))')
            ts.append(f'(assert (let ((lv {vs[0]})) (= lv {vs[-1]})))(assert (forall ((qv {sort})) (= qv {vs[0]})))')
            out.append(''.join(ts))
    return out


def fuzz(rng, sh):
    """a random edit of a shape: children deleted, duplicated, replaced, wrapped, swapped"""
    if isinstance(sh, str):
        return rng.choice(POOL) if rng.random() < 0.12 else sh
    ch = [fuzz(rng, c) if rng.random() < 0.5 else c for c in sh]
    r = rng.random()
    if r < 0.15 and ch:
        del ch[rng.randrange(len(ch))]
    elif r < 0.3 and ch:
        i = rng.randrange(len(ch))
        ch.insert(i, ch[i])
    elif r < 0.45:
        ch.insert(rng.randint(0, len(ch)), rng.choice(POOL))
    elif r < 0.55 and ch:
        ch[rng.randrange(len(ch))] = rng.choice(POOL)
    elif r < 0.6:
        return (tuple(ch),)
    elif r < 0.65 and len(ch) > 1:
        i, j = rng.randrange(len(ch)), rng.randrange(len(ch))
        ch[i], ch[j] = ch[j], ch[i]
    return tuple(ch)


def run(ctx, impl, model, rng, texts, nfuzz=150, classes=None):
    from ddsmt import mutators_arithmetic, mutators_boolean, mutators_fp, mutators_strings, mutators_datatypes, mutators_core
    smtlib, nodes = impl.smtlib, impl.nodes
    inc, dec = mutators_core.ReplaceByVariable(), mutators_core.ReplaceByVariable()
    inc.repl_mode, dec.repl_mode = 'inc', 'dec'
    objs = {'ArithmeticStrengthenRelation': mutators_arithmetic.ArithmeticStrengthenRelation(), 'BoolXORRemoveConstant': mutators_boolean.BoolXORRemoveConstant(),
            'FPShortSort': mutators_fp.FPShortSort(), 'StringSimplifyConstant': mutators_strings.StringSimplifyConstant(),
            'RemoveDatatypeIdentity': mutators_datatypes.RemoveDatatypeIdentity(), 'Constants': mutators_core.Constants(),
            'ReplaceByVariable (inc)': inc, 'ReplaceByVariable (dec)': dec}
    names = [c for c in CODES if classes is None or c.split(' ')[0] in classes]
    calls, meta = [], []

    def corpus():
        """texts, or lists of shapes: each a unit for collect_information"""
        tg = targeted(rng)
        for t in list(texts) + tg:
            yield t, None
        mal = []
        for c, ms in MALFORMED.items():
            if classes is None or c in classes:
                mal += [m if m.startswith(COMMANDS) else f'(declare-const a Int)(declare-const b Int)(assert {m})' for m in ms]
        for t in mal:
            yield t, None
        for sh in SHAPES:
            yield None, [sh]
            yield None, [('declare-const', 'v', 'Int'), ('assert', ('=', 'v', sh))]
        seeds = []
        for t in tg + mal:
            try:
                seeds.append(impl.parse_shapes(t))
            except Exception:  # noqa
                pass
        seeds = [s_ for s_ in seeds if s_]
        for _ in range(nfuzz):
            cmds = list(rng.choice(seeds))
            for _ in range(rng.randint(1, 3)):
                i = rng.randrange(len(cmds))
                cmds[i] = fuzz(rng, cmds[i])
            yield None, cmds[:40]

    for text, shapes in corpus():
        try:
            exprs = impl.parse(text) if shapes is None else [impl.from_shape(s) for s in shapes]
            smtlib.collect_information(exprs)
        except Exception:  # noqa
            ctx.count('oracle-rewrite texts the reader or collect_information refuse')
            continue
        sels = [[w_shape(impl.to_shape(k)), w_shape(impl.to_shape(v[0])), v[1]] for k, v in getattr(smtlib, '__datatypes_selectors').items()]
        ctors = [w_shape(impl.to_shape(k)) for k in getattr(smtlib, '__datatypes_constructors')]
        for node in nodes.dfs(exprs):
            sh = w_shape(impl.to_shape(node))
            try:
                with common.time_limit(5):
                    isdef = 1 if smtlib.is_definition_node(node) else 0
                    so = smtlib.get_sort(node)
                    wso = [] if so is None else [w_shape(impl.to_shape(so))]
                    if so is None:
                        dc, vs = [0], []
                    else:
                        try:
                            dc = [1, w_shapes([impl.to_shape(c) for c in smtlib.get_default_constants(so)])]
                        except Exception:  # noqa
                            dc = [0]
                            ctx.count('oracle-rewrite nodes whose sort has no default constants because get_default_constants raises')
                        vs = [w_str(v) for v in smtlib.get_variables_with_sort(so) if not smtlib.is_defined_fun(v)]
            except Exception as e:  # noqa
                ctx.count(f'oracle-rewrite nodes whose oracle values raise ({type(e).__name__})')
                continue
            for c in names:
                m = objs[c]
                try:
                    with common.time_limit(5):
                        got = [impl.to_shape(sp.substs[node.id]) for sp in (m.mutations(node) if m.filter(node) else [])]
                    got = [1, w_shapes(got)]
                except Exception:  # noqa
                    got = [0]
                code = CODES[c]
                arg = [sh] if code < 124 else [sh, sels, ctors] if code == 124 else [sh, isdef, wso, dc] if code == 125 else [sh, isdef, wso, vs]
                calls.append((code, arg))
                meta.append((c, repr(impl.to_shape(node))[:200], got))
    res = model.batch(calls)
    for (c, node, want), got in zip(meta, res):
        ctx.count('oracle-rewrite model comparisons')
        ctx.count(f'{c}: ' + ('raises' if want == [0] else 'proposes' if want[1] else 'nothing'))
        if got != want:
            ctx.disagree(f'mutations of {c} vs Model/OracleRw.v', input=node, impl=repr(want)[:400], model=repr(got)[:400])
    return len(calls)
