"""Helpers for the node-level correspondences (C11, C12, C13): generation of
node trees/DAGs in the implementation, wire encoding with real identities,
canonicalisation of fresh identities."""
import common
import gen
from common import w_str


def counter(impl):
    return impl.Node._Node__ID_COUNTER.value


def w_node(n):
    if n.is_leaf():
        return [0, n.id, w_str(n.data)]
    return [1, n.id] + [w_node(c) for c in n.data]


def w_nodes(ns):
    return [w_node(n) for n in ns]


def w_onode(n):
    return [] if n is None else [w_node(n)]


def r_node(w):
    """wire -> nested python value ('L', id, str) | ('T', id, [children])"""
    if w[0] == 0:
        return ('L', w[1], common.r_str(w[2]))
    return ('T', w[1], [r_node(c) for c in w[2:]])


def of_impl(n):
    if n.is_leaf():
        return ('L', n.id, n.data)
    return ('T', n.id, [of_impl(c) for c in n.data])


def canon(vals, threshold):
    """Rename identities > threshold in order of first appearance (pre-order)."""
    ren = {}

    def go(v):
        i = v[1]
        if i > threshold:
            if i not in ren:
                ren[i] = threshold + 1 + len(ren)
            i = ren[i]
        if v[0] == 'L':
            return ('L', i, v[2])
        return ('T', i, [go(c) for c in v[2]])
    return [go(v) for v in vals]


def shape_of(v):
    if v[0] == 'L':
        return v[2]
    return tuple(shape_of(c) for c in v[2])


def ids_of(v):
    res = [v[1]]
    if v[0] == 'T':
        for c in v[2]:
            res += ids_of(c)
    return res


LEAVES = ['a', 'b', 'x', 'y', '0', '1', 'true', '+', 'and', 'f', 'let', '()', 'é', '\U0001F600', 'ab', '"s t"', '|q|', '', ' ', '\n', '\x00', 'z' * 300]      # incl. the empty text


def gen_small_shape(rng, depth, leaves=LEAVES):
    if depth <= 0 or rng.random() < 0.35:
        return rng.choice(leaves)
    n = rng.choice([0, 1, 2, 2, 3, 3, 4])
    return tuple(gen_small_shape(rng, depth - 1, leaves) for _ in range(n))


def gen_tree(impl, rng, depth=4, leaves=LEAVES):
    return impl.from_shape(gen_small_shape(rng, depth, leaves))


def gen_dag(impl, rng, depth=4, share=0.3):
    """Build a list of nodes in which node objects may occur at several positions
    (shared leaves, shared subtrees, shared empty lists)."""
    pool = []

    def go(d):
        if pool and rng.random() < share:
            return rng.choice(pool)
        if d <= 0 or rng.random() < 0.3:
            n = impl.Node(rng.choice(LEAVES))
        else:
            k = rng.choice([0, 0, 1, 2, 3])
            n = impl.Node(*[go(d - 1) for _ in range(k)])
            if k == 0:
                pass
        pool.append(n)
        return n
    return [go(depth) for _ in range(rng.choice([1, 2, 3, 4]))]
