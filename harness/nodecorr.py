"""Helpers for the node-level correspondences (C11, C12, C13): generation of
node trees/DAGs in the implementation, wire encoding with real identities,
canonicalisation of fresh identities."""
import common
import gen
from common import w_str


def counter(impl):
    """The identity issued last in this process.  Read from the shared counter
    when there is one; an allocator whose state cannot be read is asked for an
    identity instead (see probe_cost)."""
    c = getattr(impl.Node, '_Node__ID_COUNTER', None)
    if hasattr(c, 'value'):
        return c.value
    return impl.Node('').id


def probe_cost(impl):
    """Identities consumed by one call of counter()."""
    return 0 if hasattr(getattr(impl.Node, '_Node__ID_COUNTER', None), 'value') else 1


def _burn_and_build(args):
    """Runs in a pool worker: allocates `burn` identities (what a worker does for
    every rejected candidate), then builds a tree and sends it back."""
    import os
    import impl
    burn, shape = args
    got = [impl.Node('burnt').id for _ in range(burn)]
    t = impl.from_shape(shape)
    return t, got + [n.id for n in impl.nodes.dfs(t)], os.getpid()


def cross_process_probe(impl, rng, rounds, redup=True, model=None):
    """Identities across a fork-based pool: trees built in workers come back to
    the main process, which then (a) allocates identities itself and (b)
    re-duplicates a list holding the worker-made tree followed by a widely
    shared subtree.  Returns (cases, problems); a problem is a dict with a
    concrete input."""
    import multiprocessing
    problems = []
    cases = 0
    with multiprocessing.get_context('fork').Pool(2) as pool:
        for r in range(rounds):
            burns = [rng.choice([0, 3, 17, 40, 90, 150]) for _ in range(4)]
            shapes = [gen_small_shape(rng, 3) or ('a', 'b') for _ in burns]
            shapes = [s if not isinstance(s, str) else (s, 'k') for s in shapes]
            c0 = counter(impl)
            back = pool.map_async(_burn_and_build, list(zip(burns, shapes)), chunksize=1).get(timeout=90)
            c1 = counter(impl)
            made = [b[0] for b in back]
            if model is not None:
                # TIE-C with Model/Alloc.v: the identities issued in the window, by whichever process, and the counter after it
                pids = sorted({b[2] for b in back})
                evs = [pids.index(b[2]) + 1 for b in back for _ in b[1]] + [0] * probe_cost(impl)
                real = sorted([i for b in back for i in b[1]] + ([c1] if probe_cost(impl) else []))
                got = model.batch([(27, [c0, evs])])[0]
                if got[0] != real or got[1] != c1:
                    local = sorted(got[2]) == sorted(i for b in back for i in b[1])
                    problems.append(dict(op='allocator', kind='disagree', input=dict(counter_before=c0, allocations_per_task=[len(b[1]) for b in back],
                                                                                     processes=len(pids)),
                                         observed=f'identities issued in the window {real[:12]}… counter after {c1}',
                                         expected=f'model of the shared allocator: {got[0][:12]}… counter {got[1]}'
                                         + (' (the observed identities are those of per-process counters, Props/C13.local_counters_refuted)' if local else '')))
            wid = [[n.id for n in impl.nodes.dfs(t)] for t in made]
            flat = [i for ids in wid for i in ids]
            cases += 1
            if len(set(flat)) != len(flat):
                problems.append(dict(op='worker-ids', input=dict(burn=burns, shapes=shapes), observed=f'identities of trees built in pool workers repeat: {wid}',
                                     expected='every construction, in whichever process, gets its own identity'))
                continue
            if not redup:
                later = [impl.Node('m').id for _ in range(400)]
                both = sorted(set(later) & set(flat))[:5]
                if both:
                    problems.append(dict(op='main-ids-after-worker', input=dict(burn=burns, shapes=shapes),
                                         observed=f'the main process handed out identities {both} that nodes built in a worker already carry '
                                         f'(worker-made identities {wid})', expected='fresh identities are new in every process of the pool'))
                continue
            width = rng.choice([60, 200, 320])
            s = impl.Node('h', 'a', '1')
            lst = list(made) + [impl.Node('g', *([s] * width))]
            res = impl.nodes.reduplicate(lst)
            rid = [n.id for n in impl.nodes.dfs(res)]
            dup = sorted({i for i in rid if rid.count(i) > 1})[:5] if len(set(rid)) != len(rid) else []
            if dup or ' '.join(map(str, res)) != ' '.join(map(str, lst)):
                problems.append(dict(op='reduplicate-after-worker', input=dict(burn=burns, shapes=shapes, shared_width=width),
                                     observed=f'after reduplicate in the main process the identities {dup} occur at two positions '
                                     f'(worker-made identities {wid})', expected='pairwise distinct identities, same text'))
                continue
            later = [impl.Node('m').id for _ in range(200)]
            both = sorted(set(later) & set(flat))[:5]
            if both:
                problems.append(dict(op='main-ids-after-worker', input=dict(burn=burns, shapes=shapes),
                                     observed=f'the main process handed out identities {both} that nodes built in a worker already carry',
                                     expected='fresh identities are new in every process of the pool'))
    return cases, problems


def w_node(n):
    if n.is_leaf():
        return [0, n.id, w_str(n.data)]
    return [1, n.id] + [w_node(c) for c in n.data]


def w_nodes(ns):
    return [w_node(n) for n in ns]


def w_onode(n):
    return [] if n is None else [w_node(n)]


def r_node(w):
    """wire -> nested python value ('L', id, str) | ('T', id, [children])"""
    if w[0] == 0:
        return ('L', w[1], common.r_str(w[2]))
    return ('T', w[1], [r_node(c) for c in w[2:]])


def of_impl(n):
    if n.is_leaf():
        return ('L', n.id, n.data)
    return ('T', n.id, [of_impl(c) for c in n.data])


def canon(vals, threshold):
    """Rename identities > threshold in order of first appearance (pre-order)."""
    ren = {}

    def go(v):
        i = v[1]
        if i > threshold:
            if i not in ren:
                ren[i] = threshold + 1 + len(ren)
            i = ren[i]
        if v[0] == 'L':
            return ('L', i, v[2])
        return ('T', i, [go(c) for c in v[2]])
    return [go(v) for v in vals]


def shape_of(v):
    if v[0] == 'L':
        return v[2]
    return tuple(shape_of(c) for c in v[2])


def ids_of(v):
    res = [v[1]]
    if v[0] == 'T':
        for c in v[2]:
            res += ids_of(c)
    return res


LEAVES = ['a', 'b', 'x', 'y', '0', '1', 'true', '+', 'and', 'f', 'let', '()', 'é', '\U0001F600', 'ab', '"s t"', '|q|', '', ' ', '\n', '\x00', 'z' * 300,
          '\x0c', '\xa0', '\u2028']      # incl. the empty text


def gen_small_shape(rng, depth, leaves=LEAVES):
    if depth <= 0 or rng.random() < 0.35:
        return rng.choice(leaves)
    n = rng.choice([0, 1, 2, 2, 3, 3, 4])
    return tuple(gen_small_shape(rng, depth - 1, leaves) for _ in range(n))


def gen_tree(impl, rng, depth=4, leaves=LEAVES):
    return impl.from_shape(gen_small_shape(rng, depth, leaves))


def gen_dag(impl, rng, depth=4, share=0.3):
    """Build a list of nodes in which node objects may occur at several positions
    (shared leaves, shared subtrees, shared empty lists)."""
    pool = []

    def go(d):
        if pool and rng.random() < share:
            return rng.choice(pool)
        if d <= 0 or rng.random() < 0.3:
            n = impl.Node(rng.choice(LEAVES))
        else:
            k = rng.choice([0, 0, 1, 2, 3])
            n = impl.Node(*[go(d - 1) for _ in range(k)])
            if k == 0:
                pass
        pool.append(n)
        return n
    return [go(depth) for _ in range(rng.choice([1, 2, 3, 4]))]
