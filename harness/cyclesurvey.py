"""Broad (offline) survey of short mutation cycles / no-ops on the current tree: many seeds, larger budgets.
Prints one line per distinct (kind, mutator chain) with an example input.  A search, never a proof."""
import json
import random
import sys

_ARGV = list(sys.argv)
import impl  # noqa: E402
import proposals as P  # noqa: E402
import instances  # noqa: E402
import smtgen  # noqa: E402
from props.c03 import search_cycles  # noqa: E402

seeds = [int(x) for x in _ARGV[1:]] or [1]
found = {}
for seed in seeds:
    rng = random.Random(seed)
    inputs = []
    for cls in instances.classes():
        for _ in range(3):
            r = instances.make(rng, cls)
            if r is not None:
                inputs.append(r[0])
    for _ in range(40):
        g, cmds = smtgen.gen_script(rng, nasserts=rng.choice([1, 2]), depth=2)
        inputs.append(smtgen.script_text(cmds))
    for text in inputs:
        try:
            f, st = search_cycles(impl, P, impl.parse(text), 2, 200, rng)
        except Exception as e:  # noqa
            print('ERR', type(e).__name__, e, file=sys.stderr)
            continue
        for x in f:
            sig = (x['kind'], tuple(x['chain']))
            if sig not in found:
                found[sig] = text
                print(json.dumps(dict(kind=x['kind'], chain=x['chain'], input=text, via=x.get('via') or x.get('node'))), flush=True)
