"""Generators for shapes (pure s-expression structure), lexeme sequences and
SMT-LIB-like texts.  All randomness comes from the rng passed in."""

ATOM_CHARS = 'abcxyzABC0123456789~!@$%^&*_-+=<>.?/:#'
WS = [' ', '\t', '\n', '\r']


def gen_atom(rng, liberal=False):
    k = rng.random()
    if k < 0.08:
        n = rng.randint(79, 130)      # longer than the wrap width
    elif k < 0.3:
        n = rng.randint(4, 20)
    else:
        n = rng.randint(1, 3)
    s = ''.join(rng.choice(ATOM_CHARS) for _ in range(n))
    if rng.random() < 0.15:
        s = '-'.join(['abc', s, 'hyph-en'])
    if rng.random() < 0.05:
        s = rng.choice(['#b0101', '#xAF', '12.50', ':named', 'éλx', '\U0001F600q'])
    if rng.random() < 0.04:
        # characters that Python's str methods (strip, split, isspace) take for white space but SMT-LIB and ddSMT's reader
        # do not: such a token is an atom like any other
        s = rng.choice(['\x0c', '\x0b', '\x1c', '\x1f', '\x85', '\xa0', '\u2028', '\u3000', '\x0c\xa0', 'a\xa0', '\x0cb'])
    return s        # (since fix F41 the scanner ends an atom before a quote or a bar: no liberal atoms any more)


BODY = ['a', 'b', ' ', '  ', '(', ')', ';', '\n', '\t', '\r', '""', '|', '\\', 'x y', '-', 'é', '((', '))']


def gen_strlit(rng):
    n = rng.choice([0, 1, 2, 3, 5, 9, 30])
    body = ''.join(rng.choice(BODY) for _ in range(n))
    if rng.random() < 0.05:
        body = body + 'z' * 90
    return '"' + body + '"'


def gen_qsym(rng):
    n = rng.choice([0, 1, 2, 3, 5, 9])
    body = ''.join(rng.choice([b for b in BODY if '|' not in b] + ['"']) for _ in range(n))
    return '|' + body + '|'


def gen_comment(rng):
    n = rng.choice([0, 1, 3, 8])
    body = ''.join(rng.choice(['c', ' ', '(', ')', ';', '"', '|', 'x', '\t']) for _ in range(n))
    return ';' + body + rng.choice(['\n', '\n', '\n', '\r'])       # a comment ends at the first line-breaking character, LF or CR


def gen_leaf(rng, liberal=False):
    k = rng.random()
    if k < 0.62:
        return gen_atom(rng, liberal)
    if k < 0.78:
        return gen_strlit(rng)
    if k < 0.9:
        return gen_qsym(rng)
    return gen_comment(rng)


def leaf_class(s):
    if s.startswith('"'):
        return 'strlit'
    if s.startswith('|'):
        return 'qsym'
    if s.startswith(';'):
        return 'comment'
    return 'atom'


def gen_shape(rng, depth, liberal=False, width=6):
    """A shape: str (leaf) or tuple of shapes."""
    if depth <= 0 or rng.random() < 0.3:
        return gen_leaf(rng, liberal)
    n = rng.choice([0, 1, 1, 2, 2, 3, 3, 4, width, width + 4])
    return tuple(gen_shape(rng, depth - 1 - rng.randint(0, 1), liberal, width) for _ in range(n))


def gen_shapes(rng, liberal=False, maxdepth=6):
    n = rng.choice([0, 1, 1, 2, 3, 5])
    res = []
    for _ in range(n):
        if rng.random() < 0.15:
            res.append(gen_leaf(rng, liberal))        # top-level leaf / comment
        else:
            d = rng.choice([1, 2, 3, maxdepth])
            res.append(tuple(gen_shape(rng, d, liberal) for _ in range(rng.choice([0, 1, 2, 3, 4, 9]))))
    return res


def deep_shape(depth, leaf='a'):
    e = (leaf,)
    for _ in range(depth):
        e = (leaf, e, ())
    return e


def flat(e):
    if isinstance(e, str):
        return [e]
    res = [0]
    for x in e:
        res += flat(x)
    res.append(1)
    return res


def flats(es):
    res = []
    for e in es:
        res += flat(e)
    return res


def shape_size(e):
    if isinstance(e, str):
        return 1
    return 1 + sum(shape_size(x) for x in e)


def may_touch(x, y):
    if x in (0, 1) or y in (0, 1):
        return True
    cx = leaf_class(x)
    if cx in ('comment', 'qsym'):
        return True
    if cx == 'strlit':
        return not y.startswith('"')
    return leaf_class(y) in ('comment', 'strlit', 'qsym')       # an atom ends before ; " and |


def gen_ws(rng, nonempty):
    n = rng.choice([1, 1, 1, 2, 3]) if nonempty else rng.choice([0, 0, 1, 2])
    return ''.join(rng.choice(WS) for _ in range(n))


def items_of(rng, lexemes):
    """Attach separators to a lexeme sequence (0='(', 1=')', str=token)."""
    items = []
    for i, x in enumerate(lexemes):
        nxt = lexemes[i + 1] if i + 1 < len(lexemes) else None
        need = nxt is not None and not may_touch(x, nxt)
        items.append((x, gen_ws(rng, need)))
    return items


def render(lead, items):
    return lead + ''.join(('(' if x == 0 else ')' if x == 1 else x) + w for x, w in items)


def w_items(items):
    from common import w_str
    return [[x if x in (0, 1) else w_str(x), w_str(w)] for x, w in items]


def std_leaf(rng):
    """A leaf of the standard classes (atoms without quote/bar)."""
    return gen_leaf(rng, liberal=False)


def all_pairs_texts():
    """Systematic enumeration: all ordered pairs of lexeme classes x separators x contexts."""
    reps = {
        'lpar': [0], 'rpar': [1],
        'atom': ['a', 'x-y', '#b01', ':k', '1.5'],
        'strlit': ['"s"', '"a ""b"" ("', '""', '"\n;"'],
        'qsym': ['|q|', '|a b\n(|', '||'],
        'comment': ['; c\n', ';\n', ';( " |\n', '; c\r', ';\r'],
    }
    seps = ['', ' ', '\t', '\n', '\r', '\r\n', '  ']
    cases = []
    for c1, r1 in reps.items():
        for c2, r2 in reps.items():
            for a in r1:
                for b in r2:
                    for sep in seps:
                        if sep == '' and not may_touch(a, b):
                            continue
                        for ctx in ('top', 'inside', 'first', 'last'):
                            cases.append((a, b, sep, ctx))
    return cases
