"""In-process access to the implementation under /repo (imported fresh from the
current working tree in every check process)."""
import os
import sys
import tempfile

import common

common.setup_ddsmt()
from ddsmt import nodes, nodeio, options, smtlib, mutator_utils  # noqa: E402
from ddsmt import cli as _cli  # noqa: E402
from ddsmt.nodes import Node  # noqa: E402

_cli.setup_logging()
import logging as _logging  # noqa: E402
_logging.getLogger().setLevel(_logging.CRITICAL)
ARGS = options.args()
_TMP = tempfile.mkdtemp(prefix='verif-impl-')


def to_shape(n):
    if n.is_leaf():
        return n.data
    return tuple(to_shape(c) for c in n.data)


def to_shapes(ns):
    return [to_shape(n) for n in ns]


def from_shape(e):
    if isinstance(e, str):
        return Node(e)
    return Node(*[from_shape(c) for c in e])


def from_shapes(es):
    return [from_shape(e) for e in es]


def parse(text):
    return list(nodeio.parse_smtlib(text))


def parse_shapes(text):
    return to_shapes(parse(text))


def render(exprs, mode):
    """mode: check | default | pretty | wrap"""
    if mode == 'check':
        fn = os.path.join(_TMP, f'chk-{os.getpid()}.smt2')
        nodeio.write_smtlib_for_checking(fn, exprs)
        with open(fn, newline='') as f:
            return f.read()
    old = (ARGS.pretty_print, ARGS.wrap_lines)
    try:
        ARGS.pretty_print = mode == 'pretty'
        ARGS.wrap_lines = mode == 'wrap'
        return nodeio.write_smtlib_to_str(exprs)
    finally:
        ARGS.pretty_print, ARGS.wrap_lines = old


def ids_of(exprs):
    return [n.id for n in nodes.dfs(exprs)]


def cleanup():
    import shutil
    shutil.rmtree(_TMP, ignore_errors=True)


import atexit  # noqa: E402
atexit.register(cleanup)
