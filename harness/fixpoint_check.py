"""C02 direct check: enumerate every proposal of every enabled mutator (last
hierarchical pass) on a final output with ddSMT's own Producer and run the
command on each.  usage: fixpoint_check.py <result.json> <ddsmt options...> <infile> <outfile> <cmd...>
(infile = the ORIGINAL input, used for theory detection and the golden run;
outfile = ddSMT's output, the input that must be a fixed point)"""
import json
import multiprocessing
import os
import pickle
import sys

multiprocessing.set_start_method('fork')
RESULT = sys.argv[1]
REPO = os.environ.get('VERIF_REPO', '/repo')
sys.path.insert(0, REPO)
sys.argv = ['ddsmt'] + sys.argv[2:]

from ddsmt import nodes, nodeio, options, checker, smtlib, mutators, tmpfiles, cli  # noqa: E402
from ddsmt import strategy_hierarchical as sh  # noqa: E402
from ddsmt.mutator_utils import apply_simp  # noqa: E402
import logging  # noqa: E402

cli.setup_logging()
logging.getLogger().setLevel(logging.CRITICAL)
A = options.args()
tmpfiles.init()
orig = list(nodeio.parse_smtlib(open(A.infile).read()))
mutators.auto_detect_theories(orig)
tmpfiles.copy_binaries()
checker.do_golden_runs()
exprs = list(nodeio.parse_smtlib(open(A.outfile).read()))
smtlib.collect_information(exprs)
passes = sh.get_passes()
last, params = sh.get_pass(passes, len(passes) - 1)


class NoAbort:
    def is_set(self):
        return False


prod = sh.Producer(last, NoAbort(), exprs)
n = 0
accepted = []
errors = 0
names = set()
for task in prod.generate(0, params):
    n += 1
    names.add(task.name)
    try:
        cand = apply_simp(pickle.loads(task.exprs), pickle.loads(task.simp))
        ok = checker.check_exprs(cand)
    except Exception as e:  # noqa
        errors += 1
        ok = False
    if ok:
        accepted.append(dict(nodeid=task.nodeid, mutator=task.name, candidate=nodeio.write_smtlib_to_str(cand)[:2000]))
        if len(accepted) >= 3:
            break
json.dump(dict(proposals=n, accepted=accepted, errors=errors, mutators=sorted(names), nnodes=nodes.count_nodes(exprs),
               enabled=[type(m).__name__ for m in last]), open(RESULT, 'w'))
