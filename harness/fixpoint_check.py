"""C02 direct check: enumerate every proposal of every enabled mutator (last
hierarchical pass) on a final output independently of ddSMT's Producer, compare with what
the Producer generates, and run the command on each.  usage: fixpoint_check.py <result.json> <ddsmt options...> <infile> <outfile> <cmd...>
(infile = the ORIGINAL input, used for theory detection and the golden run;
outfile = ddSMT's output, the input that must be a fixed point)"""
import json
import multiprocessing
import os
import pickle
import sys

multiprocessing.set_start_method('fork')
RESULT = sys.argv[1]
REPO = os.environ.get('VERIF_REPO', '/repo')
sys.path.insert(0, REPO)
sys.argv = ['ddsmt'] + sys.argv[2:]

from ddsmt import nodes, nodeio, options, checker, smtlib, mutators, tmpfiles, cli  # noqa: E402
from ddsmt import strategy_hierarchical as sh  # noqa: E402
from ddsmt.mutator_utils import apply_simp  # noqa: E402
import logging  # noqa: E402

cli.setup_logging()
logging.getLogger().setLevel(logging.CRITICAL)
A = options.args()
tmpfiles.init()
orig = list(nodeio.parse_smtlib(open(A.infile).read()))
mutators.auto_detect_theories(orig)
tmpfiles.copy_binaries()
checker.do_golden_runs()
exprs = list(nodeio.parse_smtlib(open(A.outfile).read()))
smtlib.collect_information(exprs)
passes = sh.get_passes()
last, params = sh.get_pass(passes, len(passes) - 1)
# the mutators enabled for this input and these options, independently of the pass lists: every class of every theory
# whose option is on (the property: the result is a fixed point of EVERY enabled mutator)
enabled_all = []
for _th, (_mod, _names) in mutators.get_all_mutators().items():
    for _cls, _opt in _names.items():
        if getattr(A, 'mutator_' + _opt.replace('-', '_'), True):
            enabled_all.append(getattr(_mod, _cls)())
last_names = set(type(m).__name__ for m in last)


class NoAbort:
    def is_set(self):
        return False


def key_of(simp):
    return (sorted((str(k), str(v)) for k, v in simp.substs.items()), [str(v) for v in simp.fresh_vars])


# what ddSMT's own Producer generates for the last pass ...
prod = sh.Producer(last, NoAbort(), exprs)
produced = []
for task in prod.generate(0, params):
    produced.append((task.nodeid, task.name, key_of(pickle.loads(task.simp))))

# ... and the specification: every node (breadth first), every enabled mutator that accepts it, all of its local and
# all of its global simplifications.  A failing mutator contributes what it delivered before failing.
spec = []
count = 0
_skip = getattr(smtlib, 'has_comment_operand', lambda n: False)
for node in nodes.bfs(exprs, params.get('max_depth', None)):
    count += 1
    if _skip(node):
        continue        # no mutator takes a comment for an operand
    for m in last + [m_ for m_ in enabled_all if type(m_).__name__ not in last_names]:
        try:
            if hasattr(m, 'filter') and not m.filter(node):
                continue
            if hasattr(m, 'mutations'):
                for x in m.mutations(node):
                    spec.append((count, str(m), x))
            if hasattr(m, 'global_mutations'):
                for x in m.global_mutations(node, exprs):
                    spec.append((count, f'(global) {m}', x))
        except Exception:  # noqa
            pass
spec_keys = [(c, nm, key_of(x)) for c, nm, x in spec]
# ... and once more mutator by mutator, each starting from freshly collected information (as in the earlier passes of a second
# run, where a mutator works alone): what a mutator proposes for a node must not depend on which mutator asked for a sort first
seen_keys = set(map(repr, spec_keys))
for m in last + [m_ for m_ in enabled_all if type(m_).__name__ not in last_names]:
    smtlib.collect_information(exprs)
    count = 0
    for node in nodes.bfs(exprs, params.get('max_depth', None)):
        count += 1
        if _skip(node):
            continue
        try:
            if hasattr(m, 'filter') and not m.filter(node):
                continue
            got = []
            if hasattr(m, 'mutations'):
                got += [(count, str(m), x) for x in m.mutations(node)]
            if hasattr(m, 'global_mutations'):
                got += [(count, f'(global) {m}', x) for x in m.global_mutations(node, exprs)]
        except Exception:  # noqa
            continue
        for c_, nm_, x_ in got:
            k_ = repr((c_, nm_, key_of(x_)))
            if k_ not in seen_keys:
                seen_keys.add(k_)
                spec.append((c_, nm_ + ' [working alone]', x_))
smtlib.collect_information(exprs)
missing = [k for k in spec_keys if k not in produced]
extra = [k for k in produced if k not in spec_keys]
n = 0
accepted = []
errors = 0
names = set()
for c, nm, x in spec:
    n += 1
    names.add(nm)
    try:
        cand = apply_simp(exprs, type(x)(dict(x.substs), list(x.fresh_vars)))
        ok = checker.check_exprs(cand)
    except Exception as e:  # noqa
        errors += 1
        ok = False
    if ok:
        accepted.append(dict(nodeid=c, mutator=nm, candidate=nodeio.write_smtlib_to_str(cand)[:2000],
                             generated_by_producer=(c, nm, key_of(x)) in produced))
        if len(accepted) >= 3:
            break
json.dump(dict(proposals=n, accepted=accepted, errors=errors, mutators=sorted(names), nnodes=nodes.count_nodes(exprs),
               enabled=sorted(set(type(m).__name__ for m in enabled_all)), last_pass=sorted(last_names), produced=len(produced),
               missing=[[c, nm, repr(k)[:300]] for c, nm, k in missing[:5]], nmissing=len(missing),
               extra=[[c, nm, repr(k)[:300]] for c, nm, k in extra[:5]], nextra=len(extra)), open(RESULT, 'w'))
