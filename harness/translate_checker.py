"""TIE-T: translate the decision code of ddsmt/checker.py (matches_golden, check)
from its AST into Gallina (coq/theories/Gen/CheckerGen.v).  Fails closed: any
AST shape outside the small fragment below raises TranslateError."""
import ast
import os
import sys

import common


class TranslateError(Exception):
    pass


OPTION_FIELDS = ['cmd', 'timeout', 'ignore_output', 'ignore_out', 'ignore_err', 'match_out', 'match_err',
                 'cmd_cc', 'timeout_cc', 'ignore_output_cc', 'match_out_cc', 'match_err_cc', 'unchecked']
RUN_FIELDS = {'exit': 'r_exit', 'out': 'r_out', 'err': 'r_err'}


class Tr:
    def __init__(self, params, runs, globals_):
        self.params = params      # names that are pyval parameters
        self.runs = runs          # names bound to runinfo records
        self.globals = globals_   # module globals -> coq names (runinfo)
        self.exec_calls = []

    def expr(self, e):
        if isinstance(e, ast.Name):
            if e.id in self.params:
                return f'(ret {e.id})'
            raise TranslateError(f'unknown name {e.id}')
        if isinstance(e, ast.Constant):
            if e.value is True:
                return '(ret (VBool true))'
            if e.value is False:
                return '(ret (VBool false))'
            if e.value is None:
                return '(ret VNone)'
            raise TranslateError(f'constant {e.value!r}')
        if isinstance(e, ast.Attribute):
            # run.exit / golden.out / options.args().x
            v = e.value
            if isinstance(v, ast.Name) and (v.id in self.runs or v.id in self.globals) and e.attr in RUN_FIELDS:
                name = self.globals.get(v.id, v.id)
                return f'(ret ({RUN_FIELDS[e.attr]} {name}))'
            if self.is_args(v):
                if e.attr not in OPTION_FIELDS:
                    raise TranslateError(f'unknown option {e.attr}')
                return f'(ret (o_{e.attr} cfg))'
            raise TranslateError('attribute ' + ast.dump(e))
        if isinstance(e, ast.UnaryOp) and isinstance(e.op, ast.Not):
            return f'(e_not {self.expr(e.operand)})'
        if isinstance(e, ast.BoolOp):
            op = 'e_or' if isinstance(e.op, ast.Or) else 'e_and'
            res = self.expr(e.values[-1])
            for v in reversed(e.values[:-1]):
                res = f'({op} {self.expr(v)} {res})'
            return res
        if isinstance(e, ast.Compare) and len(e.ops) == 1:
            ops = {ast.Eq: 'e_eq', ast.NotEq: 'e_ne', ast.In: 'e_in', ast.NotIn: 'e_notin'}
            for k, v in ops.items():
                if isinstance(e.ops[0], k):
                    return f'({v} {self.expr(e.left)} {self.expr(e.comparators[0])})'
            raise TranslateError('compare ' + ast.dump(e))
        if isinstance(e, ast.Call) and isinstance(e.func, ast.Name) and e.func.id == 'matches_golden':
            if len(e.args) != 6 or e.keywords:
                raise TranslateError('matches_golden arity')
            g, r = e.args[0], e.args[1]
            if not (isinstance(g, ast.Name) and g.id in self.globals and isinstance(r, ast.Name) and r.id in self.runs):
                raise TranslateError('matches_golden record arguments')
            binds = ''
            names = []
            for i, a in enumerate(e.args[2:]):
                binds += f'{self.expr(a)} >>= fun a{i} => '
                names.append(f'a{i}')
            return f'({binds}(matches_golden {self.globals[g.id]} {r.id} {" ".join(names)}) >>= fun b => ret (VBool b))'
        raise TranslateError('expression ' + ast.dump(e))

    @staticmethod
    def is_args(v):
        return (isinstance(v, ast.Call) and not v.args and isinstance(v.func, ast.Attribute) and v.func.attr == 'args'
                and isinstance(v.func.value, ast.Name) and v.func.value.id == 'options')

    def stmts(self, body, k):
        if not body:
            return k
        s, rest = body[0], body[1:]
        if isinstance(s, ast.Expr) and isinstance(s.value, ast.Constant) and isinstance(s.value.value, str):
            return self.stmts(rest, k)      # docstring
        if isinstance(s, ast.Return):
            if isinstance(s.value, ast.Constant) and s.value.value in (True, False):
                return f'(ret {"true" if s.value.value else "false"})'
            raise TranslateError('return ' + ast.dump(s))
        if isinstance(s, ast.If):
            kk = self.stmts(rest, k)
            return f'(if_ {self.expr(s.test)}\n  {self.stmts(s.body, kk)}\n  {self.stmts(s.orelse, kk)})'
        if isinstance(s, ast.Assign) and len(s.targets) == 1 and isinstance(s.targets[0], ast.Name) \
                and isinstance(s.value, ast.Call) and isinstance(s.value.func, ast.Name) and s.value.func.id == 'execute':
            args = s.value.args
            if len(args) != 3 or not (self.is_args(getattr(args[0], 'value', None)) and self.is_args(getattr(args[2], 'value', None))
                                      and isinstance(args[1], ast.Name) and args[1].id == 'filename'):
                raise TranslateError('execute call ' + ast.dump(s))
            idx = len(self.exec_calls)
            self.exec_calls.append((args[0].attr, args[2].attr))
            name = s.targets[0].id
            self.runs.add(name)
            inner = self.stmts(rest, k)
            return f'(let {name} := run{idx} in {inner})'
        raise TranslateError('statement ' + ast.dump(s))


def translate(repo=None):
    repo = repo or common.REPO
    src = open(os.path.join(repo, 'ddsmt', 'checker.py')).read()
    tree = ast.parse(src)
    funs = {n.name: n for n in tree.body if isinstance(n, ast.FunctionDef)}
    for f in ('matches_golden', 'check', 'execute', 'check_exprs', 'do_golden_runs'):
        if f not in funs:
            raise TranslateError(f'function {f} not found')
    mg = funs['matches_golden']
    params = [a.arg for a in mg.args.args]
    if params != ['golden', 'run', 'ignore_out', 'ignore_err', 'match_out', 'match_err']:
        raise TranslateError(f'matches_golden parameters {params}')
    t1 = Tr(set(params[2:]), {'golden', 'run'}, {})
    body1 = t1.stmts(mg.body, '(ret true) (* fell off the end: None *)')
    ck = funs['check']
    if [a.arg for a in ck.args.args] != ['filename']:
        raise TranslateError('check parameters')
    t2 = Tr(set(), set(), {'__GOLDEN': 'golden', '__GOLDEN_CC': 'golden_cc'})
    body2 = t2.stmts(ck.body, '(ret true)')
    if t2.exec_calls != [('cmd', 'timeout'), ('cmd_cc', 'timeout_cc')]:
        raise TranslateError(f'execute calls {t2.exec_calls}')
    # execute(): facts used by the model (argv shape, unchecked short-cut, timeout record)
    ex = funs['execute']
    ex_src = ''.join(ast.unparse(ex).split())
    first = [s_ for s_ in ex.body if not (isinstance(s_, ast.Expr) and isinstance(s_.value, ast.Constant))][0]
    facts = dict(
        argv_is_cmd_plus_filename=ex_src.count('Popen(cmd+[filename],') == ex_src.count('Popen(') >= 1,
        unchecked_shortcut=''.join(ast.unparse(first).split()) ==
        "ifoptions.args().unchecked:returnRunInfo(0,'unchecked','unchecked',0)",
        # the handler must be exactly: kill; log; return the (None, None, None) record -- proc.returncode is
        # None there only because the child has not been waited for
        timeout_record=("exceptsubprocess.TimeoutExpired:proc.kill()logging.debug(f'[!!]timeout:terminatedafter{timeout:.2f}seconds')"
                        "returnRunInfo(proc.returncode,None,None,timeout)") in ex_src,
        kill_on_timeout='proc.kill()' in ex_src,
        communicate_timeout='proc.communicate(timeout=timeout)' in ex_src,
        # both streams are decoded injectively (undecodable bytes become lone surrogates: different outputs stay different, F41)
        normal_record="returnRunInfo(proc.returncode,out.decode(errors='surrogateescape'),err.decode(errors='surrogateescape'),runtime)" in ex_src,
    )
    ce_src = ''.join(ast.unparse(funs['check_exprs']).split())
    facts['check_exprs_writes_then_checks'] = ('tmpfile=tmpfiles.get_tmp_filename()' in ce_src
                                               and 'nodeio.write_smtlib_for_checking(tmpfile,exprs)' in ce_src
                                               and 'returncheck(tmpfile)' in ce_src)
    tf = ''.join(open(os.path.join(repo, 'ddsmt', 'tmpfiles.py')).read().split())
    facts['tmpfile_has_infile_ext'] = ("__FILEEXT=os.path.splitext(options.args().infile)[1]" in tf
                                       and "f'ddsmt-tmp-{os.getpid()}-{threading.get_ident()}{__FILEEXT}')" in tf)
    opts = '\n'.join(f'  o_{f} : pyval;' for f in OPTION_FIELDS).rstrip(';')
    out = f'''(* GENERATED by harness/translate_checker.py from ddsmt/checker.py -- do not edit.
   matches_golden and check, translated statement by statement. *)
From DD Require Export Base.Py.

Record config := mk_config {{
{opts} }}.

Definition matches_golden (golden run : runinfo) (ignore_out ignore_err match_out match_err : pyval) : res bool :=
  {body1}.

(* run0 / run1: the records execute() returns for the command / the cross-check command *)
Definition check (cfg : config) (golden golden_cc run0 run1 : runinfo) : res bool :=
  {body2}.

(* facts about execute()/check_exprs() extracted from the source text *)
''' + '\n'.join(f'Definition fact_{k} : bool := {"true" if v else "false"}.' for k, v in facts.items()) + '\n'
    return out, facts


def main():
    out, facts = translate()
    p = os.path.join(common.THEORIES, 'Gen', 'CheckerGen.v')
    changed = common.write_if_changed(p, out)
    print('CheckerGen.v', 'updated' if changed else 'unchanged', facts)


if __name__ == '__main__':
    main()
