"""TIE-H monitor: reconstructs, from the recorded history of a real hierarchical run, the action sequence of the
scheduler model (Model/SchedHier.v) and has the extracted model replay it; compares the model's state at every
sweep boundary (pass, skip, current input) and its write history with what the run did."""
import itertools


def split_sweeps(events):
    """events of the hierarchical strategy, in time order -> (npasses, init digest, list of sweeps)"""
    start = next((i for i, e in enumerate(events) if e['ev'] == 'strategy' and e['name'] == 'hierarchical'), None)
    if start is None:
        return None
    end = next((i for i, e in enumerate(events) if e['ev'] == 'strategy_end' and e['name'] == 'hierarchical'), len(events))
    evs = events[start:end + 1]
    init = evs[0]['digest']
    sweeps = []
    cur_pass = None
    npasses = None
    sw = None
    for e in evs:
        if e['ev'] == 'pass':
            cur_pass, npasses = e['id'], e['npasses']
        elif e['ev'] == 'sweep':
            sw = dict(pass_=cur_pass, skip=e['skip'], base=e['digest'], t=e['t'], gens=[], gen_end=None, workers=[], consumes=[], write=None)
            sweeps.append(sw)
        elif sw is not None:
            if e['ev'] == 'gen':
                sw['gens'].append(e)
            elif e['ev'] == 'gen_end':
                sw['gen_end'] = e
            elif e['ev'] == 'worker':
                sw['workers'].append(e)
            elif e['ev'] == 'consume':
                sw['consumes'].append(e)
            elif e['ev'] == 'write':
                sw['write'] = e
    return npasses, init, sweeps, evs[-1].get('digest')


def build(events):
    """Returns (wire argument for dispatch 80, observed boundaries, observed writes) or None"""
    r = split_sweeps(events)
    if r is None:
        return None
    npasses, init, sweeps, final = r
    ids = {}

    def idx(d):
        if d is None:
            return None
        return ids.setdefault(d, len(ids) + 1)
    unknown = itertools.count(-1, -1)
    # candidate per generated task (by order within (nodeid, simp)), from the workers' logs
    tables = {}      # (pass, base) -> {nid: longest list of (simp, cand)}
    accept = {}
    per_sweep = []
    for sw in sweeps:
        wq = {}
        for w in sw['workers']:
            wq.setdefault((w['nodeid'], w['simp']), []).append(w)
        tasks = []
        ords = {}
        for g in sw['gens']:
            q = wq.get((g['nodeid'], g['simp']))
            w = q.pop(0) if q else None
            cand = idx(w['cand']) if w is not None and w.get('cand') else None
            o = ords.get((g['nodeid'], g['name']), 0)
            ords[(g['nodeid'], g['name'])] = o + 1
            tasks.append(dict(nid=g['nodeid'], simp=(g['name'], o), cand=cand, worker=w, t=g['t']))
            if w is not None and not w['aborted'] and w.get('cand'):
                if cand in accept and accept[cand] != bool(w['success']):
                    # one candidate (modulo the names of fresh variables, F18), two verdicts: the command looks at those names
                    # (or a check ran into its time limit); the deterministic `accept` of the model cannot replay that
                    return dict(error='verdicts depend on fresh-variable names', fresh_names=True)
                accept[cand] = bool(w['success'])
        for t in tasks:
            pass
        per_sweep.append(tasks)
        key = (sw['pass_'], idx(sw['base']))
        tb = tables.setdefault(key, {})
        for nid in sorted(set(t['nid'] for t in tasks)):
            lst = [(t['simp'], t['cand']) for t in tasks if t['nid'] == nid]
            old = tb.get(nid, [])
            # keep the longest list; fill in candidates that only one of the sweeps got to know
            known = {k: c for k, c in old + lst if c is not None}
            best = lst if len(lst) > len(old) else old
            tb[nid] = [(k, known.get(k)) for k, _ in best]
    table_w = []
    merged = {}
    for (p, b), tb in tables.items():
        m = [(nid, simp, cand if cand is not None else next(unknown)) for nid in sorted(tb) for simp, cand in tb[nid]]
        merged[(p, b)] = m
        table_w.append([p, b, [[nid, cand] for nid, _, cand in m]])
    actions = []
    observed = []
    prev_pass = -1
    for sw, tasks in zip(sweeps, per_sweep):
        # passes skipped by the code (no mutator enabled): the model sweeps over an empty candidate list
        for _ in range(prev_pass + 1 if prev_pass >= 0 and sw['pass_'] > prev_pass else 0, sw['pass_']):
            pass
        if sw['pass_'] != prev_pass and prev_pass != -1:
            for p in range(prev_pass + 1, sw['pass_']):
                actions += [[1], [4]]
                observed.append(None)
        elif prev_pass == -1:
            for p in range(0, sw['pass_']):
                actions += [[1], [4]]
                observed.append(None)
        prev_pass = sw['pass_']
        observed_prev = dict(pass_=sw['pass_'], skip=sw['skip'], base=idx(sw['base']))
        if observed:
            observed[-1] = observed_prev if observed[-1] is None and False else observed[-1]
        sw['obs'] = observed_prev
        m = merged[(sw['pass_'], idx(sw['base']))]
        # timeline of this sweep
        timeline = []
        ti = 0
        emitted = 0
        for (nid, simp, cand) in m:
            if nid <= sw['skip']:
                timeline.append((sw['t'], 0, ('gen', None)))
                continue
            if emitted < len(tasks):
                t = tasks[emitted]
                if (t['nid'], t['simp']) != (nid, simp):
                    return dict(error=f'generated task {t["nid"]}/{t["simp"]} where the candidate list has {nid}/{simp}')
                timeline.append((t['t'], 0, ('gen', emitted)))
                emitted += 1
            else:
                break
        if emitted < len(tasks):
            return dict(error='more tasks generated than the merged candidate list holds')
        ge = sw['gen_end']['t'] if sw['gen_end'] else (tasks[-1]['t'] if tasks else sw['t'])
        timeline.append((ge, 1, ('pstop', None)))
        for k, t in enumerate(tasks):
            if t['worker'] is not None:
                timeline.append((t['worker']['t'], 2, ('work', k)))
        cq = {}
        for k, t in enumerate(tasks):
            cq.setdefault((t['nid'], t['worker']['name'] if t['worker'] else None), []).append(k)
        for c in sw['consumes']:
            # which task? first not yet consumed with this nodeid / name whose worker result matches
            cands_ = [k for k in cq.get((c['nodeid'], c['name']), []) if tasks[k]['worker'] is not None
                      and bool(tasks[k]['worker']['success']) == bool(c['success']) and not tasks[k].get('consumed')
                      and tasks[k]['worker']['t'] <= c['t'] and (not c['success'] or tasks[k]['worker'].get('cand') == c.get('cand'))]
            cands_.sort(key=lambda k: tasks[k]['worker']['t'])
            if not cands_:
                return dict(error=f'consumed a result for node {c["nodeid"]} ({c["name"]}) that no worker produced')
            k = cands_[0]
            tasks[k]['consumed'] = True
            timeline.append((c['t'], 3, ('consume', k)))
        timeline.sort(key=lambda x: (x[0], x[1]))
        pending, results = [], []
        for _, _, (kind, k) in timeline:
            if kind == 'gen':
                actions.append([0])
                if k is not None:
                    pending.append(k)
            elif kind == 'pstop':
                actions.append([1])
            elif kind == 'work':
                if k not in pending:
                    return dict(error='worker result for a task that was not pending')
                actions.append([2, pending.index(k), int(bool(tasks[k]['worker']['aborted']))])
                pending.remove(k)
                results.append(k)
            elif kind == 'consume':
                if k not in results:
                    return dict(error='result consumed before the worker produced it')
                actions.append([3, results.index(k)])
                results.remove(k)
        if pending:
            return dict(error=f'{len(pending)} generated tasks never produced a result')
        for _ in list(results):       # results that arrived after the abort flag was set (not observable): any order
            actions.append([3, 0])
        actions.append([4])
    # remaining passes without sweeps
    for p in range(prev_pass + 1, npasses):
        actions += [[1], [4]]
    obs = [sw['obs'] for sw in sweeps]
    writes = [idx(sw['write']['digest']) for sw in sweeps if sw['write'] is not None]
    return dict(arg=[npasses, idx(init), table_w, [[c, int(v)] for c, v in accept.items()], actions], sweeps=obs, writes=writes,
                final=idx(final), nactions=len(actions), empty_before=[None])


def compare(res, built):
    """model result (wire) vs observations -> list of problems"""
    bad, bounds, final, writes = res
    problems = []
    if bad != -1:
        problems.append(f'the model does not allow action #{bad} of the reconstructed history')
        return problems
    # boundaries: state after each AEndSweep = start of the next sweep; drop the model's sweeps over skipped (empty) passes
    starts = [dict(pass_=0, skip=0, base=built['arg'][1])] + [dict(pass_=b[0], skip=b[1], base=b[3]) for b in bounds]
    obs = built['sweeps']
    j = 0
    for o in obs:
        while j < len(starts) and (starts[j]['pass_'], starts[j]['skip'], starts[j]['base']) != (o['pass_'], o['skip'], o['base']):
            j += 1
        if j >= len(starts):
            problems.append(f'sweep started with pass={o["pass_"]} skip={o["skip"]} input#{o["base"]}; the model has no such sweep at this point '
                            f'(model sweeps: {[(s["pass_"], s["skip"], s["base"]) for s in starts][:12]})')
            break
        j += 1
    if writes != built['writes']:
        problems.append(f'write history differs: run {built["writes"]}, model {writes}')
    if not final[4]:
        problems.append('the run finished but the model has not finished')
    if built['final'] is not None and final[3] != built['final']:
        problems.append(f'final input differs: run #{built["final"]}, model #{final[3]}')
    return problems
