"""Enumerate every proposal of every mutator on every node of an input with
ddSMT's own mutator classes (in-process).  Used by C03, C15, C17, C18."""
import copy
import sys

_ARGV = list(sys.argv)
import impl  # noqa: E402
from ddsmt import mutators, smtlib, nodes
from ddsmt.mutator_utils import Simplification, apply_simp


def all_mutators():
    res = []
    for tname, (mod, reg) in mutators.get_all_mutators().items():
        for cls in reg:
            res.append((tname, cls, getattr(mod, cls)()))
    return res


def enumerate_proposals(exprs, only=None, max_per_node=60, time_limit=20, mem=False, mutator_objects=None):
    """Yields dicts: node index (BFS), mutator class, kind, simplification, result (list of nodes) or error.
    mem=True: the peak of the memory allocated while filter/mutations ran is measured (tracemalloc) and reported
    as one extra dict per (node, mutator) with kind='mem'."""
    import common
    if mem:
        import tracemalloc
        tracemalloc.start()
    smtlib.collect_information(exprs)
    # mutator_objects: objects that live across several inputs, as in a pass of ddSMT (default: fresh ones)
    muts = [(t, c, m) for t, c, m in (mutator_objects or all_mutators()) if only is None or c in only]
    # a list with a comment among its children is offered to no mutator (the strategies skip it until the comment is erased)
    skip = getattr(smtlib, 'has_comment_operand', None)
    for idx, node in enumerate(nodes.bfs(exprs), 1):
        if skip is not None and skip(node):
            continue
        for tname, cls, m in muts:
            if mem:
                tracemalloc.reset_peak()
                base_ = tracemalloc.get_traced_memory()[0]
            try:
                with common.time_limit(time_limit):
                    if hasattr(m, 'filter') and not m.filter(node):
                        continue
                    props = []
                    if hasattr(m, 'mutations'):
                        for k, s in enumerate(m.mutations(node)):
                            props.append(('local', s))
                            if k >= max_per_node:
                                break
                    if hasattr(m, 'global_mutations'):
                        for k, s in enumerate(m.global_mutations(node, exprs)):
                            props.append(('global', s))
                            if k >= max_per_node:
                                break
            except common.Hang:
                yield dict(idx=idx, node=node, cls=cls, kind='filter/mutations', error='hang')
                continue
            except Exception as e:  # noqa
                if mem:
                    yield dict(idx=idx, node=node, cls=cls, kind='mem', peak=tracemalloc.get_traced_memory()[1] - base_, error='(measurement)')
                yield dict(idx=idx, node=node, cls=cls, kind='filter/mutations', error=f'{type(e).__name__}: {e}')
                continue
            if mem:
                yield dict(idx=idx, node=node, cls=cls, kind='mem', peak=tracemalloc.get_traced_memory()[1] - base_, error='(measurement)')
            for kind, s in props:
                yield dict(idx=idx, node=node, cls=cls, kind=kind, simp=s)
    if mem:
        tracemalloc.stop()


def apply(exprs, simp):
    """apply_simp on a copy of the substitution map (substitute consumes identity keys)."""
    s = Simplification(dict(simp.substs), list(simp.fresh_vars))
    return apply_simp(exprs, s)


def dump(path):
    """print one line per proposal: used to compare runs under different hash seeds"""
    import re
    exprs = impl.parse(open(path).read())
    out = []
    for p in enumerate_proposals(exprs):
        if 'error' in p:
            out.append(f"{p['idx']} {p['cls']} ERROR {p['error'].split(':')[0]}")
            continue
        try:
            res = apply(exprs, p['simp'])
            txt = impl.nodeio.write_smtlib_to_str(res) if res is not None else 'None'
        except Exception as e:  # noqa
            txt = f'ERROR {type(e).__name__}'
        out.append(f"{p['idx']} {p['cls']} {p['kind']} {re.sub(r'x[0-9]+__fresh', 'xN__fresh', txt)!r}")
    return out


def dump_ddmin(path):
    """one line per candidate of ddmin's task generator (every mutator, several granularities): the grouped
    simplifications of strategy_ddmin.TaskGenerator, applied to the input"""
    from ddsmt import strategy_ddmin
    exprs = impl.parse(open(path).read())
    smtlib.collect_information(exprs)
    out = []
    for tname, cls, m in all_mutators():
        if not (hasattr(m, 'mutations') or hasattr(m, 'global_mutations')):
            continue
        try:
            n = strategy_ddmin.TaskGenerator(exprs, None, m).num_filtered
        except Exception as e:  # noqa
            out.append(f'{cls} ERROR {type(e).__name__}')
            continue
        for gran in sorted(set(g for g in (n, n // 2, n // 4, 3, 2) if g > 1), reverse=True):
            tg = strategy_ddmin.TaskGenerator(exprs, gran, m)
            for k, task in enumerate(tg):
                if k > 40:
                    break
                for i, simp in enumerate(task.simplifications[:4]):
                    try:
                        res = apply(exprs, simp)
                        txt = impl.nodeio.write_smtlib_to_str(res) if res is not None else 'None'
                    except Exception as e:  # noqa
                        txt = f'ERROR {type(e).__name__}'
                    out.append(f'{cls} gran={gran} task={task.id} #{i} {txt!r}')
    return out


if __name__ == '__main__':
    for line in (dump_ddmin(_ARGV[2]) if _ARGV[1] == '--ddmin' else dump(_ARGV[1])):
        print(line)
