"""TIE-C for Model/Defaults.v (dispatch 160-165): smtlib.get_default_constants and smtlib.get_variables_with_sort, and the
tables of collect_information they read, as functions of the script.

For every text: read it with the implementation, call collect_information (an input on which it raises is skipped and
counted), then compare
  - __datatypes_constants (items, in dict order) with the model's dt_constants(script) (162);
  - __sort_lookup (items, in dict order, with the recorded sorts) with the model's table after both loops (163); the model has
    no __get_sort_cache, so this comparison is made with the table that collect_information builds when smtlib.get_sort is
    replaced by its uncached body; a text on which the cache changes a recorded sort (a let re-binding a symbol between two
    evaluations of structurally equal terms) is counted, and its variables are not compared;
  - the keys of __constants (texts, in dict order) with the model's (164);
  - for every distinct sort get_sort returns for some node of the text, every sort written in a declaration of the text
    and a corpus of well-formed and malformed sorts:
      smtlib.get_default_constants(sort) (an exception = None) with default_constants(table of the implementation, sort) (160)
      smtlib.get_variables_with_sort(sort) with variables_with_sort(script, sort) (161 one by one for the text's own
      sorts, 165 for all of them at once).
Sorts (_ FloatingPoint e s) with int(e) < 0 are outside the model (Python computes 2**e - 1 with floats): the model says
None there, the harness counts them apart and requires that None.
control= replaces the implementation's answer by a deliberately wrong reading (NEGATIVE CONTROLS):
  'nofilter'  get_variables_with_sort without the [v in __constants] filter
  'order'     get_variables_with_sort in reversed order
  'fpwidth'   the FP constants with significand field of sb bits instead of sb - 1
  'lastdecl'  __sort_lookup in the order of the LAST insertion of a key"""
import common
from common import w_shape, w_str, r_shape

SORT_CORPUS = [
    'Bool', 'Int', 'Real', 'String', 'RoundingMode', 'RegLan', 'U', 'D', 'E', 'P', '(D)', '(L Int)', '|Bool|', 'bool', '()', '(Bool)',
    '(_ BitVec 1)', '(_ BitVec 8)', '(_ BitVec 64)', '(_ BitVec 0)', '(_ BitVec x)', '(_ BitVec 08)', '(_ BitVec -1)', '(_ BitVec (8))', '(_ BitVec)', '(_ BitVec 8 8)',
    '(BitVec _ 8)', '((_) BitVec 8)', '(_ bitvec 8)', '(_ |BitVec| 8)',
    '(_ FloatingPoint 8 24)', '(_ FloatingPoint 5 11)', '(_ FloatingPoint 11 53)', '(_ FloatingPoint 15 113)', '(_ FloatingPoint 2 2)', '(_ FloatingPoint 1 1)',
    '(_ FloatingPoint 1 2)', '(_ FloatingPoint 2 1)', '(_ FloatingPoint 0 0)', '(_ FloatingPoint 0 5)', '(_ FloatingPoint 8)', '(_ FloatingPoint 8 24 1)',
    '(_ FloatingPoint x 24)', '(_ FloatingPoint 8 y)', '(_ FloatingPoint (8) 24)', '(_ FloatingPoint 8 (24))', '(_ FloatingPoint +8 24)', '(_ FloatingPoint 8 +24)',
    '(_ FloatingPoint 08 024)', '(_ FloatingPoint 1_0 2_4)', '(_ FloatingPoint 8_ 24)', '(_ FloatingPoint _8 24)', '(_ FloatingPoint 8__0 24)', '(_ FloatingPoint 8 -3)',
    '(_ FloatingPoint 8 0)', '(_ FloatingPoint 64 3)', '(_ FloatingPoint 300 3)', '(_ FloatingPoint -0 3)', '(_ FloatingPoint 8.0 24)', '(_ FloatingPoint #x08 24)',
    '(_ FloatingPoint |8| 24)', '(FloatingPoint _ 8 24)', '(_ floatingpoint 8 24)',
    'Float16', 'Float32', 'Float64', 'Float128', 'Float', 'Float8', 'Float256', 'float32', 'Float032', 'Float32x', '|Float32|',
    '(Array Int Bool)', '(Array Int (_ BitVec 8))', '(Array Int)', '(Seq Int)', '(Set Int)', '(Set Bool)', '(Set Real)', '(Set (_ BitVec 4))', '(Set (Set Int))',
    '(Set (_ FloatingPoint 8 y))', '(Set (Set (_ FloatingPoint x 1)))', '(Set D)', '(Set U)', '(Set)', '(Set Int Int)', '(set Int)', '(Set (_ FloatingPoint 3 3))', '(Set Float16)',
    '(Bag Int)', '(Tuple Int Bool)', '(-> Int Int)',
]
NEG_SORTS = ['(_ FloatingPoint -1 3)', '(_ FloatingPoint -3 24)', '(Set (_ FloatingPoint -2 2))']

TEXT_CORPUS = [
    '(declare-const x Int)(declare-const b Bool)(declare-const v (_ BitVec 8))(declare-const f (_ FloatingPoint 8 24))(assert (= x 1))',
    '(declare-fun x () Int)(declare-fun g (Int) Int)(define-fun h () Int 3)(define-fun k ((a Int)) Int a)(assert (= (g x) (k h)))',
    # the same name declared several times: position of the first insertion, value of the last, once a constant always a constant
    '(declare-const x Int)(declare-const y Int)(declare-const x Bool)(declare-const z Int)',
    '(declare-const x Int)(declare-fun x (Int) Int)(declare-const y Int)', '(declare-fun x (Int) Int)(declare-const x Int)(declare-const y Int)',
    '(declare-fun x (Bool) Int)(define-fun x () Int 1)', '(define-fun x () Int 1)(declare-fun x (Bool) Int)', '(define-fun x ((a Int)) Int 1)(declare-const y Int)',
    '(declare-const y Int)(define-fun x () Int 1)(declare-const x Int)(declare-fun w () Int)',
    # let / quantifiers rebinding a constant
    '(declare-const x Int)(declare-const y Int)(assert (let ((x true)) x))', '(declare-const x Int)(declare-const y Real)(assert (let ((x y)) (> x 0.0)))',
    '(declare-const x Int)(declare-const y Real)(assert (let ((x (f y))) x))', '(declare-const x Int)(declare-const y Int)(assert (forall ((x Bool)) x))',
    '(declare-const x Int)(declare-const y Int)(assert (exists ((y (_ BitVec 4)) (x Real)) true))', '(declare-const x Int)(assert (let ((x 1.5) (z x)) (let ((x z)) true)))',
    '(declare-const a Int)(declare-const x Int)(assert (let ((x (+ a 1))) (let ((a 1.5)) (let ((x (+ a 1))) true))))',
    '(declare-const a Int)(declare-const x Int)(declare-const y Int)(assert (let ((x (+ a 1))) (let ((a 1.5)) (let ((y (+ a 1))) true))))',
    '(declare-const x Int)(define-fun f ((x Bool)) Bool (let ((x 1)) true))(declare-const y Int)', '(declare-const x Int)(declare-const g (forall ((x Bool)) x))',
    '(assert (let ((q 1)) q))(declare-const q Bool)(declare-const r Int)', '(declare-const x (_ BitVec 8))(declare-const y (_ BitVec 8))(assert (let ((y ((_ extract 3 0) x))) (= y #x0)))',
    '(declare-const x Int)(assert (let ((x (ite true 1 2)) (w (select a 1))) x))', '(declare-const x Int)(assert (let (x 1) x))(assert (let ((x)) x))(assert (let ((x 1 2)) x))',
    # comments
    '(declare-const ; c\n x Int)(declare-const y ; d\n Int ; e\n)(declare-fun z (; k\n) Int)', '(declare-const x Int ; c\n extra)', '(; c\n declare-const x Int)',
    '(declare-const x (_ BitVec ; c\n 8))(declare-const y (_ BitVec 8))', '(declare-datatype D ; c\n ((c) ; d\n (d)))(declare-const x D)',
    '(assert (let ; c\n ((x 1)) x))(declare-const x Int)', '(declare-const x Int)(assert (let ((x ; c\n 1.5)) x))', '(declare-const x Int)(assert (let ((; c\n x 1.5)) x))',
    # malformed declaring commands
    '(declare-const x)(declare-const (y) Int)(declare-fun z Int Int)(declare-fun (w) () Int)(define-fun u () Int)(define-fun v x Int 1)(declare-const ok Int)',
    '(declare-const x (Int))(declare-const y (Int))(declare-const z ())(declare-const w ())', 'x', '()', '(declare-const)', '((declare-const) x Int)',
    # datatypes
    '(declare-datatype D ((c) (d) (e (s Int))))(declare-const x D)(declare-const y D)(assert (= x c))',
    '(declare-datatype D ((e (s Int))))(declare-const x D)', '(declare-datatype D ())(declare-const x D)', '(declare-datatype D ((c)))(declare-datatype D ((d)))(declare-const x D)',
    '(declare-datatype D ((c)))(declare-datatype E ((c) (k)))(declare-const x E)', '(declare-datatype (D) ((c)))(declare-const x (D))', '(declare-datatype D (((c d))))',
    '(declare-datatype D ((c) c (d) () ((e)) (f)))', '(declare-datatype D (c))', '(declare-datatype D c)', '(declare-datatype D ((c)) extra)', '(declare-datatype D)',
    '(declare-datatypes ((D 0) (E 0)) (((c) (d (s E))) ((k) (m))))(declare-const x D)(declare-const y E)', '(declare-datatypes ((D 0) (E 0)) (((c))))',
    '(declare-datatypes ((D 0)) (((c)) ((k))))', '(declare-datatypes ((D 0) E) (((c)) ((k))))', '(declare-datatypes ((D 0) ()) (((c)) ((k))))', '(declare-datatypes ((D 0) (E 0)) (x ((k))))',
    '(declare-datatypes (((D) 0)) (((c))))', '(declare-datatypes ((D 0) (D 0)) (((c)) ((d))))', '(declare-datatypes ((L 1)) ((par (X) ((nil) (cons (hd X) (tl (L X)))))))',
    '(declare-datatype L (par (X) ((nil) (cons (hd X)))))', '(declare-datatypes () ())', '(declare-datatypes x y)', '(declare-datatypes ((D 0)) (((c))) extra)',
    '(declare-datatype P ((mk (a Int) (b Bool))))(declare-const p P)(declare-const x Int)(assert (= (a p) x))',
    '(declare-datatype Int ((zero)))(declare-const x Int)', '(declare-datatype Bool ((t)))(declare-const x Bool)', '(declare-datatype (_ BitVec 8) ((z)))(declare-const x (_ BitVec 8))',
    '(declare-datatype (Set Int) ((z)))', '(declare-datatype Float32 ((z)))',
    # sorts of every theory
    '(declare-const r Real)(declare-const s String)(declare-const m RoundingMode)(declare-const a (Array Int Bool))(declare-const h Float16)(declare-const i Float32)'
    '(declare-const j Float64)(declare-const k Float128)(declare-const e (Set Int))(declare-const q (Seq Int))(declare-const u U)(declare-sort U 0)',
    '(declare-const f (_ FloatingPoint 5 11))(declare-const g Float16)(declare-const h (_ FloatingPoint 11 53))(assert (fp.eq f ((_ to_fp 5 11) RNE 1.0)))',
    '(declare-const v (_ BitVec 08))(declare-const w (_ BitVec 8))(declare-const z (_ BitVec 0))',
]


def fp_negative(sort):
    """(_ FloatingPoint e s) with int(e) < 0, also below Set: outside the model"""
    if sort.is_leaf():
        return False
    if len(sort) == 2 and sort[0].is_leaf() and sort[0].data == 'Set':
        return fp_negative(sort[1])
    if len(sort) == 4 and sort[0].is_leaf() and sort[0].data == '_' and sort[1].is_leaf() and sort[1].data == 'FloatingPoint' and sort[2].is_leaf() and sort[3].is_leaf():
        try:
            int(sort[3].data)
            return int(sort[2].data) < 0
        except ValueError:
            return False
    return False


def sorts_of(impl, exprs, limit=40):
    """the distinct sorts get_sort returns for the nodes of the text and the sorts written in its declarations"""
    smtlib, nodes = impl.smtlib, impl.nodes
    out, seen = [], set()

    def add(s):
        if s is None or not isinstance(s, impl.Node):
            return
        k = impl.to_shape(s)
        if k not in seen and len(str(s)) < 300:
            seen.add(k)
            out.append(s)
    for s in getattr(smtlib, '__sort_lookup').values():
        add(s)
    for s in getattr(smtlib, '__datatypes_constants').keys():
        add(s)
    n = 0
    for node in nodes.dfs(exprs):
        n += 1
        if n > 400 or len(out) >= limit:
            break
        try:
            add(smtlib.get_sort(node))
        except Exception:  # noqa
            pass
    return out[:limit]


def uncached_items(impl, exprs):
    """the items of __sort_lookup when collect_information runs with a get_sort that has no cache"""
    smtlib = impl.smtlib
    orig = smtlib.get_sort

    def plain(node):
        try:
            return smtlib._get_sort_aux(node)
        except (IndexError, ValueError, AttributeError, AssertionError, TypeError, RecursionError):
            return None
    smtlib.get_sort = plain
    try:
        with common.time_limit(20):
            smtlib.collect_information(exprs)
        return [(k, None if v is None else impl.to_shape(v)) for k, v in getattr(smtlib, '__sort_lookup').items()]
    finally:
        smtlib.get_sort = orig


def fp_wrong(impl, sort):
    """NEGATIVE CONTROL 'fpwidth': the six constants with a significand field of sb bits"""
    Node = impl.Node
    if sort.is_leaf():
        ew, sw = {'Float16': (5, 11), 'Float32': (8, 24), 'Float64': (11, 53), 'Float128': (15, 113)}[sort.data]
    else:
        ew, sw = int(sort[2].data), int(sort[3].data)
    sign, signm = Node('_', 'bv0', 1), Node('_', 'bv1', 1)
    zero_ew, zero_sw, one_sw, ones_ew = Node('_', 'bv0', ew), Node('_', 'bv0', sw), Node('_', 'bv1', sw), Node('_', f'bv{2**ew - 1}', ew)
    return [Node('fp', sign, zero_ew, zero_sw), Node('fp', signm, zero_ew, zero_sw), Node('fp', sign, ones_ew, one_sw), Node('fp', signm, ones_ew, one_sw),
            Node('fp', sign, ones_ew, zero_sw), Node('fp', signm, ones_ew, zero_sw)]


def compare(impl, model, texts, report, count, control=None, corpus_sorts=True):
    """Compare implementation and model on the texts; report(name, input=, impl=, model=) every difference."""
    smtlib = impl.smtlib
    corpus = [impl.parse(s)[0] for s in SORT_CORPUS] if corpus_sorts else []
    negs = [impl.parse(s)[0] for s in NEG_SORTS] if corpus_sorts else []
    calls, meta = [], []
    for text in texts:
        try:
            exprs = impl.parse(text)
        except Exception:  # noqa
            count('consequence texts the reader refuses')
            continue
        try:
            with common.time_limit(20):
                smtlib.collect_information(exprs)
        except Exception as e:  # noqa
            count('consequence texts on which collect_information raises')
            count(f'consequence: collect_information raises {type(e).__name__}')
            continue
        count('consequence texts compared')
        shapes = [w_shape(x) for x in impl.to_shapes(exprs)]
        # the model has no __get_sort_cache: it describes collect_information with an uncached get_sort
        plain = uncached_items(impl, exprs)
        smtlib.collect_information(exprs)
        dtc = getattr(smtlib, '__datatypes_constants')
        lk = getattr(smtlib, '__sort_lookup')
        cs = getattr(smtlib, '__constants')
        dtc_w = [[w_shape(impl.to_shape(k)), [w_shape(impl.to_shape(c)) for c in v]] for k, v in dtc.items()]
        dtc_r = [(impl.to_shape(k), [impl.to_shape(c) for c in v]) for k, v in dtc.items()]
        calls.append((162, shapes))
        meta.append((text, 'dt_constants', None, dtc_r))
        items = [(k, None if v is None else impl.to_shape(v)) for k, v in lk.items()]
        if control == 'lastdecl':
            last = {}
            for i, e in enumerate(exprs):
                if not e.is_leaf() and len(e) > 1 and e[1].is_leaf():
                    last[e[1].data] = i
            items.sort(key=lambda p: last.get(p[0], 10 ** 9))
        calls.append((163, shapes))
        meta.append((text, 'sort_lookup (uncached get_sort)', None, plain if control is None else items))
        stale = plain != [(k, None if v is None else impl.to_shape(v)) for k, v in lk.items()]
        if stale:
            count('consequence texts on which the get_sort cache changes a value of __sort_lookup (outside the model, variables not compared)')
        calls.append((164, shapes))
        meta.append((text, 'constants', None, [k if isinstance(k, str) else k.data for k in cs.keys()]))
        if dtc:
            count('consequence texts with datatype constants')
        own = sorts_of(impl, exprs)
        sorts = own + corpus + negs
        want_vars = []
        for i, so in enumerate(sorts):
            outside = fp_negative(so)
            try:
                dc = [impl.to_shape(c) for c in smtlib.get_default_constants(so)]
                if control == 'fpwidth' and smtlib.is_fp_sort(so):
                    dc = [impl.to_shape(c) for c in fp_wrong(impl, so)]
            except Exception as e:  # noqa
                dc = None
                count(f'consequence sorts on which get_default_constants raises {type(e).__name__}')
            if outside:
                count('consequence sorts outside the model (negative exponent width: float arithmetic)')
                if dc is None:
                    report('get_default_constants raises where the harness expects the float path', input=str(so), impl='raises', model='-')
                dc = None
            elif dc:
                count('consequence sorts with default constants')
            calls.append((160, [w_shape(impl.to_shape(so)), dtc_w]))
            meta.append((text, 'default_constants', str(so), dc))
            vs = list(smtlib.get_variables_with_sort(so))
            if control == 'nofilter':
                vs = [v for v in lk if lk[v] == so]
            elif control == 'order':
                vs = vs[::-1]
            vs = [v if isinstance(v, str) else v.data for v in vs]
            if vs:
                count('consequence sorts with variables')
            if len(vs) > 1:
                count('consequence sorts with several variables')
            want_vars.append(vs)
            if i < len(own) and not stale:
                calls.append((161, [shapes, w_shape(impl.to_shape(so))]))
                meta.append((text, 'variables_with_sort', str(so), vs))
        if not stale:
            calls.append((165, [shapes, [w_shape(impl.to_shape(so)) for so in sorts]]))
            meta.append((text, 'variables_with_sort (all sorts)', ' | '.join(str(s) for s in sorts), want_vars))
        count('consequence sorts compared', len(sorts))
    res = model.batch(calls)
    ndiff = 0
    for (text, kind, arg, want), got in zip(meta, res):
        try:
            if kind == 'dt_constants':
                g = [(r_shape(p[0]), [r_shape(c) for c in p[1]]) for p in got]
            elif kind.startswith('sort_lookup'):
                g = [(common.r_str(p[0]), r_shape(p[1][0]) if p[1] else None) for p in got]
            elif kind == 'constants' or kind == 'variables_with_sort':
                g = [common.r_str(s) for s in got]
            elif kind == 'default_constants':
                g = [r_shape(c) for c in got[0]] if got else None
            else:
                g = [[common.r_str(s) for s in l] for l in got]
        except Exception:  # noqa
            g = ('unreadable', got)
        if g != want:
            ndiff += 1
            if kind == 'variables_with_sort (all sorts)' and isinstance(g, list) and len(g) == len(want):
                bad = [i for i in range(len(want)) if g[i] != want[i]]
                ss = arg.split(' | ')
                report(f'get_variables_with_sort vs Model/Defaults.v {kind}', input=text[:400] + ' @ ' + repr([ss[i] for i in bad][:5]), impl=repr([want[i] for i in bad][:5]), model=repr([g[i] for i in bad][:5]))
            else:
                report(f'{kind} vs Model/Defaults.v', input=(text[:400] + (' @ ' + arg if arg else '')), impl=repr(want)[:600], model=repr(g)[:600])
    return len(calls), ndiff


def gen_shadow_script(rng):
    """declarations of constants and functions with repeated names, rebinding lets and quantifiers, datatypes"""
    names = ['a', 'b', 'c', 'x', 'y', 'z', 'f', '|a|', 'D', 'k']
    sorts = ['Int', 'Bool', 'Real', '(_ BitVec 4)', '(_ BitVec 8)', '(_ FloatingPoint 3 5)', 'Float16', 'D', 'E', '(Array Int Int)', 'String']

    def nm():
        return rng.choice(names)

    def so():
        return rng.choice(sorts)

    def term(d=2):
        r = rng.random()
        if d == 0 or r < .35:
            return rng.choice([nm(), nm(), '1', '1.5', '#b0101', 'true', '(_ bv3 8)', '"s"'])
        if r < .6:
            return '(let (' + ' '.join(f'({nm()} {term(d - 1)})' for _ in range(rng.randrange(1, 3))) + f') {term(d - 1)})'
        if r < .7:
            return f'({rng.choice(["forall", "exists"])} (' + ' '.join(f'({nm()} {so()})' for _ in range(rng.randrange(1, 3))) + f') {term(d - 1)})'
        return f'({rng.choice(["+", "and", "=", "f", "bvadd", "ite", "select", "fp.add", "*", "-", "concat", "k"])} {term(d - 1)} {term(d - 1)})'

    out = []
    for _ in range(rng.randrange(2, 9)):
        k = rng.randrange(8)
        if k <= 1:
            out.append(f'(declare-const {nm()} {so()})')
        elif k == 2:
            out.append(f'(declare-fun {nm()} (' + ' '.join(so() for _ in range(rng.randrange(2))) + f') {so()})')
        elif k == 3:
            out.append(f'(define-fun {nm()} (' + ' '.join(f'({nm()} {so()})' for _ in range(rng.randrange(2))) + f') {so()} {term()})')
        elif k == 4:
            out.append(f'(declare-datatype {rng.choice(["D", "E"])} (' + ' '.join(rng.choice([f'({nm()})', f'({nm()} (s{i} {so()}))']) for i in range(rng.randrange(1, 4))) + '))')
        elif k == 5:
            out.append('(declare-datatypes ((D 0) (E 0)) ((' + ' '.join(f'({nm()})' for _ in range(rng.randrange(1, 3))) + f') (({nm()}) ({nm()} (s {so()})))))')
        else:
            out.append(f'(assert {term(3)})')
    return '\n'.join(out) + '\n'


def corpus(rng, texts, nshadow=300):
    return list(texts) + TEXT_CORPUS + [gen_shadow_script(rng) for _ in range(nshadow)]


def run(ctx, impl, model, rng, texts, nshadow=300):
    all_texts = corpus(rng, texts, nshadow)
    for t in all_texts:
        ctx.case(('consequence', t), nontrivial=True)
    ncalls, ndiff = compare(impl, model, all_texts, lambda name, **kw: ctx.disagree(name, **kw), ctx.count)
    ctx.count('consequence model calls', ncalls)
    return ncalls
