"""Typed generator of well-sorted SMT-LIB scripts.  Every generated term carries
its sort, so the harness knows the actual sort of every subterm (C16), and every
declared/defined/bound symbol is bound exactly once."""
import itertools


class T:
    """A term: shape (str or tuple of T) plus its sort (a shape: str or nested tuple of str)."""
    __slots__ = ('op', 'args', 'sort', 'kind')

    def __init__(self, op, args=(), sort=None, kind='term'):
        self.op = op          # for leaves: the token; for applications: None (args[0] is the head)
        self.args = tuple(args)
        self.sort = sort
        self.kind = kind      # 'term' | 'syntax' (binders, indexed heads, sorts: no sort of their own)

    def shape(self):
        if not self.args and self.op is not None:
            return self.op
        return tuple(a.shape() for a in self.args)


def leaf(tok, sort=None, kind='term'):
    return T(tok, (), sort, kind)


def syn(x):
    """syntax (no sort): from a python shape"""
    if isinstance(x, T):
        return x
    if isinstance(x, str):
        return T(x, (), None, 'syntax')
    return T(None, [syn(c) for c in x], None, 'syntax')


def app(head, args, sort):
    return T(None, [syn(head)] + list(args), sort, 'term')


BOOL, INT, REAL, STRING, RM = 'Bool', 'Int', 'Real', 'String', 'RoundingMode'


def bv(n):
    return ('_', 'BitVec', str(n))


def fp(e, s):
    return ('_', 'FloatingPoint', str(e), str(s))


def arr(i, e):
    return ('Array', i, e)


def is_bv(s):
    return isinstance(s, tuple) and len(s) == 3 and s[1] == 'BitVec'


def is_fp(s):
    return isinstance(s, tuple) and len(s) == 4 and s[1] == 'FloatingPoint'


def is_arr(s):
    return isinstance(s, tuple) and len(s) == 3 and s[0] == 'Array'


class Gen:
    def __init__(self, rng, theories=('core', 'ints', 'reals', 'bv', 'strings', 'arrays', 'fp', 'dt'), quant=True, exotic=0.0):
        self.rng = rng
        self.exotic = exotic    # probability of a quoted symbol that needs its bars (space, parenthesis, semicolon inside)
        self.th = set(theories)
        self.quant = quant
        self.counter = itertools.count()
        self.vars = []          # (name, sort)
        self.funs = []          # (name, argsorts, sort)
        self.dts = []           # (sortname, [(cons, [(sel, sort)])])
        self.cmds = []          # list of T (commands)
        self.scope = []         # let/quantifier bound (name, sort)

    def fresh(self, prefix):
        n = next(self.counter)
        if self.exotic and self.rng.random() < self.exotic:
            return self.rng.choice(['|{p} {n}|', '|{p}({n})|', '|{p};{n}|', '|{p}{n}|', '|the {p} {n}|']).format(p=prefix, n=n)
        return f'{prefix}{n}'

    def sorts(self):
        s = [BOOL]
        if 'ints' in self.th:
            s.append(INT)
        if 'reals' in self.th:
            s.append(REAL)
        if 'bv' in self.th:
            s += [bv(1), bv(4), bv(8), bv(self.rng.choice([2, 3, 5, 16]))]
        if 'strings' in self.th:
            s.append(STRING)
        if 'fp' in self.th:
            s += [fp(5, 11), fp(8, 24)]
        if 'arrays' in self.th and 'ints' in self.th:
            s += [arr(INT, BOOL), arr(INT, INT)]
            if 'bv' in self.th:
                s.append(arr(bv(4), bv(8)))
        for d in self.dts:
            s.append(d[0])
        return s

    # ---- declarations
    def declare(self, nvars=6):
        r = self.rng
        if 'dt' in self.th and r.random() < 0.8:
            name = self.fresh('D')
            elem = r.choice([INT if 'ints' in self.th else BOOL, BOOL])
            if r.random() < 0.5:
                cons = [(self.fresh('nil'), []), (self.fresh('cons'), [(self.fresh('hd'), elem), (self.fresh('tl'), name)])]
            else:
                # enumeration-like: several nullary constructors (and sometimes one with a field)
                cons = [(self.fresh(c), []) for c in r.sample(['red', 'green', 'blue', 'cyan', 'pink'], r.choice([2, 3, 4]))]
                if r.random() < 0.4:
                    cons.append((self.fresh('box'), [(self.fresh('get'), elem)]))
            self.dts.append((name, cons))
            decl = syn(('declare-datatype', name, tuple((c,) + tuple((s, so) for s, so in sels) if sels else (c,) for c, sels in cons)))
            self.cmds.append(decl)
        for _ in range(nvars):
            s = r.choice(self.sorts())
            n = self.fresh(r.choice(['x', 'y', 'v', 'u']))
            self.vars.append((n, s))
            if r.random() < 0.5:
                self.cmds.append(syn(('declare-const', n, s)))
            else:
                self.cmds.append(syn(('declare-fun', n, (), s)))
        for _ in range(r.choice([0, 1, 2])):
            s = r.choice(self.sorts())
            a = [r.choice(self.sorts()) for _ in range(r.choice([1, 2]))]
            n = self.fresh('f')
            self.funs.append((n, a, s))
            self.cmds.append(syn(('declare-fun', n, tuple(a), s)))

    def define_fun(self):
        r = self.rng
        s = r.choice(self.sorts())
        params = [(self.fresh('p'), r.choice(self.sorts())) for _ in range(r.choice([0, 1, 2]))]
        self.scope += params
        body = self.term(s, 2)
        del self.scope[len(self.scope) - len(params):]
        n = self.fresh('g')
        cmd = T(None, [syn('define-fun'), syn(n), syn(tuple((p, so) for p, so in params)), syn(s), body], None, 'syntax')
        self.cmds.append(cmd)
        if params:
            self.funs.append((n, [so for _, so in params], s))
        else:
            self.vars.append((n, s))

    # ---- terms
    def var_of(self, sort):
        c = [n for n, s in self.vars + self.scope if s == sort]
        return leaf(self.rng.choice(c), sort) if c else None

    def const(self, sort):
        r = self.rng
        if sort == BOOL:
            return leaf(r.choice(['true', 'false']), BOOL)
        if sort == INT:
            return leaf(str(r.choice([0, 1, 2, 7, 10, 42, 100])), INT)
        if sort == REAL:
            return leaf(r.choice(['0.0', '1.0', '2.5', '10.25', '3.0']), REAL)
        if is_bv(sort):
            n = int(sort[2])
            v = r.randrange(2 ** n)
            k = r.random()
            if k < 0.4:
                return leaf('#b' + format(v, f'0{n}b'), sort)
            if k < 0.6 and n % 4 == 0:
                return leaf('#x' + format(v, f'0{n // 4}x'), sort)
            return T(None, [syn('_'), syn(f'bv{v}'), syn(str(n))], sort)
        if sort == STRING:
            return leaf(r.choice(['""', '"a"', '"abc"', '"hello world"', '"x""y"']), STRING)
        if sort == RM:
            return leaf(r.choice(['RNE', 'RTZ']), RM)
        if is_fp(sort):
            e, s = int(sort[2]), int(sort[3])
            return app('fp', [self.const(bv(1)), self.const(bv(e)), self.const(bv(s - 1))], sort)
        for name, cons in self.dts:
            if sort == name:
                return leaf(r.choice([c for c, sels in cons if not sels])[0] if False else r.choice([c for c, sels in cons if not sels]), sort)
        v = self.var_of(sort)
        if v is not None:
            return v
        return None

    def base(self, sort):
        v = self.var_of(sort)
        if v is not None and self.rng.random() < 0.7:
            return v
        c = self.const(sort)
        if c is None:
            # declare a variable of that sort on the fly
            n = self.fresh('w')
            self.vars.append((n, sort))
            self.cmds.append(syn(('declare-const', n, sort)))
            return leaf(n, sort)
        return c

    def term(self, sort, depth):
        r = self.rng
        if depth <= 0 or r.random() < 0.2:
            return self.base(sort)
        d = depth - 1
        k = r.random()
        # generic constructs
        if k < 0.08:
            return app('ite', [self.term(BOOL, d), self.term(sort, d), self.term(sort, d)], sort)
        if k < 0.14:
            vs = r.choice(self.sorts())
            name = self.fresh('l')
            val = self.term(vs, d)
            self.scope.append((name, vs))
            body = self.term(sort, d)
            self.scope.pop()
            binder = T(None, [T(None, [syn(name), val], None, 'syntax')], None, 'syntax')
            return T(None, [syn('let'), binder, body], sort)
        fs = [f for f in self.funs if f[2] == sort]
        if fs and k < 0.2:
            f = r.choice(fs)
            return app(f[0], [self.term(a, d) for a in f[1]], sort)
        if k < 0.25 and 'arrays' in self.th and 'ints' in self.th and sort in (BOOL, INT):
            return app('select', [self.term(arr(INT, sort), d), self.term(INT, d)], sort)
        if k < 0.28:
            for name, cons in self.dts:
                for c, sels in cons:
                    for s_, so in sels:
                        if so == sort:
                            return app(s_, [self.term(name, d)], sort)
        if sort == BOOL:
            ch = ['not', 'and', 'or', '=>', 'xor', '=', 'distinct']
            if 'ints' in self.th or 'reals' in self.th:
                ch += ['<', '<=', '>', '>=']
            if 'bv' in self.th:
                ch += ['bvult', 'bvsle', 'bvuge']
            if 'strings' in self.th:
                ch += ['str.contains', 'str.prefixof', 'str.<']
            if 'fp' in self.th:
                ch += ['fp.lt', 'fp.isNaN', 'fp.eq']
            if 'ints' in self.th:
                ch += ['divisible']
            if self.quant:
                ch += ['forall', 'exists']
            op = r.choice(ch)
            if op == 'not':
                return app('not', [self.term(BOOL, d)], BOOL)
            if op in ('and', 'or', 'xor', '=>'):
                return app(op, [self.term(BOOL, d) for _ in range(r.choice([2, 2, 3]))], BOOL)
            if op in ('=', 'distinct'):
                s = r.choice(self.sorts())
                return app(op, [self.term(s, d) for _ in range(r.choice([2, 2, 3]))], BOOL)
            if op in ('<', '<=', '>', '>='):
                s = r.choice([x for x in (INT, REAL) if x in self.sorts()])
                return app(op, [self.term(s, d) for _ in range(r.choice([2, 2, 3]))], BOOL)
            if op in ('bvult', 'bvsle', 'bvuge'):
                s = r.choice([x for x in self.sorts() if is_bv(x)])
                return app(op, [self.term(s, d), self.term(s, d)], BOOL)
            if op in ('str.contains', 'str.prefixof', 'str.<'):
                return app(op, [self.term(STRING, d), self.term(STRING, d)], BOOL)
            if op in ('fp.lt', 'fp.eq'):
                s = r.choice([x for x in self.sorts() if is_fp(x)])
                return app(op, [self.term(s, d), self.term(s, d)], BOOL)
            if op == 'fp.isNaN':
                s = r.choice([x for x in self.sorts() if is_fp(x)])
                return app(op, [self.term(s, d)], BOOL)
            if op == 'divisible':
                return T(None, [syn(('_', 'divisible', str(r.choice([2, 3])))), self.term(INT, d)], BOOL)
            if op in ('forall', 'exists'):
                vs = r.choice(self.sorts())
                name = self.fresh('q')
                self.scope.append((name, vs))
                body = self.term(BOOL, d)
                self.scope.pop()
                return T(None, [syn(op), syn(((name, vs),)), body], BOOL)
        if sort == INT:
            ch = ['+', '-', '*', 'div', 'mod', 'abs']
            if 'strings' in self.th:
                ch += ['str.len', 'str.indexof']
            if 'reals' in self.th:
                ch += ['to_int']
            op = r.choice(ch)
            if op in ('+', '-', '*'):
                return app(op, [self.term(INT, d) for _ in range(r.choice([2, 2, 3]))], INT)
            if op in ('div', 'mod'):
                return app(op, [self.term(INT, d), self.term(INT, d)], INT)
            if op == 'abs':
                return app(op, [self.term(INT, d)], INT)
            if op == 'str.len':
                return app(op, [self.term(STRING, d)], INT)
            if op == 'str.indexof':
                return app(op, [self.term(STRING, d), self.term(STRING, d), self.term(INT, d)], INT)
            if op == 'to_int':
                return app(op, [self.term(REAL, d)], INT)
        if sort == REAL:
            op = r.choice(['+', '-', '*', '/'] + (['to_real'] if 'ints' in self.th else []))
            if op == 'to_real':
                return app(op, [self.term(INT, d)], REAL)
            return app(op, [self.term(REAL, d) for _ in range(2)], REAL)
        if is_bv(sort):
            n = int(sort[2])
            ch = ['bvadd', 'bvand', 'bvor', 'bvxor', 'bvmul', 'bvnot', 'bvneg', 'bvnand', 'bvsub', 'zero_extend', 'sign_extend', 'extract',
                  'rotate_left']
            if n >= 2:
                ch += ['concat', 'concat']
            if n == 1:
                ch += ['bvcomp', 'bvcomp']
            if n % 2 == 0:
                ch += ['repeat']
            op = r.choice(ch)
            if op in ('bvadd', 'bvand', 'bvor', 'bvxor', 'bvmul', 'bvnand', 'bvsub'):
                return app(op, [self.term(sort, d), self.term(sort, d)], sort)
            if op in ('bvnot', 'bvneg'):
                return app(op, [self.term(sort, d)], sort)
            if op == 'concat':
                a = r.randint(1, n - 1)
                return app('concat', [self.term(bv(a), d), self.term(bv(n - a), d)], sort)
            if op == 'bvcomp':
                s = r.choice([x for x in self.sorts() if is_bv(x)])
                return app('bvcomp', [self.term(s, d), self.term(s, d)], sort)
            if op in ('zero_extend', 'sign_extend'):
                k_ = r.randint(0, n - 1)
                return T(None, [syn(('_', op, str(k_))), self.term(bv(n - k_), d)], sort)
            if op == 'extract':
                extra = r.randint(0, 4)
                lo = r.randint(0, extra)
                return T(None, [syn(('_', 'extract', str(lo + n - 1), str(lo))), self.term(bv(n + extra), d)], sort)
            if op == 'repeat':
                return T(None, [syn(('_', 'repeat', '2')), self.term(bv(n // 2), d)], sort)
            if op == 'rotate_left':
                return T(None, [syn(('_', 'rotate_left', str(r.randint(0, 3)))), self.term(sort, d)], sort)
        if sort == STRING:
            op = r.choice(['str.++', 'str.replace_all', 'str.replace', 'str.at', 'str.substr'])
            if op == 'str.++':
                return app(op, [self.term(STRING, d), self.term(STRING, d)], STRING)
            if op in ('str.replace_all', 'str.replace'):
                return app(op, [self.term(STRING, d) for _ in range(3)], STRING)
            if op == 'str.at' and 'ints' in self.th:
                return app(op, [self.term(STRING, d), self.term(INT, d)], STRING)
            if op == 'str.substr' and 'ints' in self.th:
                return app(op, [self.term(STRING, d), self.term(INT, d), self.term(INT, d)], STRING)
        if is_fp(sort):
            op = r.choice(['fp.add', 'fp.mul', 'fp.neg', 'fp.abs', 'fp.min', 'to_fp'])
            if op in ('fp.add', 'fp.mul'):
                return app(op, [self.base(RM), self.term(sort, d), self.term(sort, d)], sort)
            if op in ('fp.neg', 'fp.abs'):
                return app(op, [self.term(sort, d)], sort)
            if op == 'fp.min':
                return app(op, [self.term(sort, d), self.term(sort, d)], sort)
            if op == 'to_fp' and 'reals' in self.th:
                return T(None, [syn(('_', 'to_fp', sort[2], sort[3])), self.base(RM), self.term(REAL, d)], sort)
        if is_arr(sort):
            return app('store', [self.term(sort, d), self.term(sort[1], d), self.term(sort[2], d)], sort)
        for name, cons in self.dts:
            if sort == name and r.random() < 0.7:
                c, sels = r.choice(cons)
                if not sels:
                    return leaf(c, sort)
                return app(c, [self.term(so, d) for _, so in sels], sort)
        return self.base(sort)

    def script(self, nasserts=4, depth=3, logic='ALL'):
        r = self.rng
        head = [syn(('set-logic', logic))]
        if r.random() < 0.5:
            head.append(syn(('set-info', ':status', 'unknown')))
        self.declare()
        for _ in range(r.choice([0, 1, 2])):
            self.define_fun()
        body = []
        for _ in range(nasserts):
            t = self.term(BOOL, depth)
            if r.random() < 0.1:
                t = T(None, [syn('!'), t, syn(':named'), syn(self.fresh('n'))], BOOL)
            body.append(T(None, [syn('assert'), t], None, 'syntax'))
        tail = [syn(('check-sat',))]
        bools = [n for n, s_ in self.vars if s_ == BOOL]
        if bools and r.random() < 0.2:
            tail = [syn(('check-sat-assuming', (r.choice(bools),)))]
        if r.random() < 0.3:
            tail.append(syn(('exit',)))
        return head + self.cmds + body + tail


def render_shape(e):
    if isinstance(e, str):
        return e
    return '(' + ' '.join(render_shape(x) for x in e) + ')'


def script_text(cmds):
    return '\n'.join(render_shape(c.shape()) for c in cmds) + '\n'


def gen_script(rng, **kw):
    theories = kw.pop('theories', None)
    if theories is None:
        pool = ['ints', 'reals', 'bv', 'strings', 'arrays', 'fp', 'dt']
        theories = ['core'] + [t for t in pool if rng.random() < 0.5]
    g = Gen(rng, theories, quant=kw.pop('quant', True), exotic=kw.pop('exotic', 0.0))
    cmds = g.script(**kw)
    return g, cmds


def typed_subterms(t, acc, path=()):
    """(path, T) for every node that is a term with a known sort"""
    if t.kind == 'term' and t.sort is not None:
        acc.append((path, t))
    for i, a in enumerate(t.args):
        typed_subterms(a, acc, path + (i,))
