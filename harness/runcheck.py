"""Entry point: python -m runcheck Cnn --quick|--thorough|--replay f"""
import importlib
import json
import os
import sys
import traceback

import common


def main():
    if len(sys.argv) < 2:
        print('usage: check Cnn [--quick|--thorough|--replay file]')
        return 2
    pid = sys.argv[1]
    mode = sys.argv[2] if len(sys.argv) > 2 else '--quick'
    tier = os.environ.get('VERIF_TIER') or ('thorough' if mode == '--thorough' else 'quick')
    if mode == '--thorough':
        tier = 'thorough'
    if tier == 'thorough':
        os.environ.setdefault('VERIF_COQCHK', '1')
    seed = int(os.environ.get('VERIF_SEED', '1'))
    mod = importlib.import_module('props.' + pid.lower())
    if mode == '--replay':
        return mod.replay(json.load(open(sys.argv[3])))
    ctx = common.Ctx(pid, tier, seed)
    try:
        mod.run(ctx)
    except common.BuildError as e:
        ctx.violations.append(dict(property=pid, kind='proof-broken', theorem='build of the model/driver',
                                   detail=str(e)[-3000:], how_to_replay=f'cd /verif && ./check {pid} --quick'))
    except Exception:
        ctx.violations.append(dict(property=pid, kind='correspondence-broken', function='harness exception',
                                   detail=traceback.format_exc()[-3000:],
                                   how_to_replay=f'cd /verif && ./check {pid} --quick'))
    return ctx.finish()


if __name__ == '__main__':
    sys.exit(main())
