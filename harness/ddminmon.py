"""TIE-H monitor for the ddmin strategy: every TaskGenerator instance of a recorded real run is replayed in the
extracted model Model/SchedDdmin.v (one instance = one mutator at one granularity)."""
import itertools


def instances(events):
    """split the ddmin part of a history into task-generator instances"""
    start = next((i for i, e in enumerate(events) if e['ev'] == 'strategy' and e['name'] == 'ddmin'), None)
    if start is None:
        return []
    end = next((i for i, e in enumerate(events) if e['ev'] == 'strategy_end' and e['name'] == 'ddmin'), len(events))
    res = []
    cur = None
    for e in events[start:end + 1]:
        if e['ev'] == 'taskgen':
            cur = dict(gen=e, evs=[])
            res.append(cur)
        elif cur is not None and e['ev'] in ('ddmin_task', 'ddmin_result', 'ddmin_update', 'ddmin_reset', 'write'):
            cur['evs'].append(e)
    return res


def _round_start(ordered):
    for k in range(len(ordered) - 1, -1, -1):
        if ordered[k]['ev'] == 'ddmin_reset':
            return k + 1
    return 0


def build(inst):
    g = inst['gen']
    n = g['nsubsets']
    ids = {}
    neg = itertools.count(-1, -1)

    def idx(d):
        return ids.setdefault(d, len(ids) + 1)
    init = idx(g['digest'])
    evs = sorted(inst['evs'], key=lambda e: e['t'])
    # rounds are separated by resets (parallel) -- in sequential mode every adoption is followed by a virtual restart
    table, accept, actions = [], {}, []
    index = 0
    pending, results = [], []       # lists of task dicts
    cur = init
    adopted_in_round = False
    stopped = False
    writes = []
    # reorder: a task emitted after the adoption of its round (in-flight __next__) is treated as generated just before it
    # the abort flag is set just before update(): a worker may observe it (and log an aborted result) before the
    # 'ddmin_update' marker -- move the marker (and its write) in front of the first aborted result of its round
    ordered = []
    i = 0
    evs = list(evs)
    while i < len(evs):
        e = evs[i]
        if e['ev'] == 'ddmin_result' and e.get('aborted'):
            j = i
            while j < len(evs) and evs[j]['ev'] not in ('ddmin_update', 'ddmin_reset'):
                j += 1
            if j < len(evs) and evs[j]['ev'] == 'ddmin_update' and not any(x['ev'] == 'ddmin_update' for x in ordered[_round_start(ordered):]):
                upd = evs.pop(j)
                ordered.append(upd)
                continue
        ordered.append(e)
        i += 1
    tasks_by_id = {}
    for pos, e in enumerate(ordered):
        if e['ev'] == 'ddmin_task':
            k = e['id']
            if k < index:
                return dict(error=f'task {k} generated although the generator index is {index}')
            if stopped:
                # in-flight generation that finished after stop(): harmless (its result is ignored); model it as not generated
                tasks_by_id[(k, 'late')] = True
                continue
            for _ in range(index, k):
                actions.append([0])              # subsets without candidates
            actions.append([0])
            index = k + 1
            t = dict(id=k, base=idx(e['base']), result=None)
            pending.append(t)
            tasks_by_id[k] = t
        elif e['ev'] == 'ddmin_result':
            t = tasks_by_id.get(e['id'])
            if (e['id'], 'late') in tasks_by_id and (t is None or t not in pending):
                continue
            if t is None or t not in pending:
                return dict(error=f'result for task {e["id"]} that is not pending')
            ab = bool(e.get('aborted'))
            if e['success']:
                c = idx(e['cand'])
                accept[c] = True
                table.append([t['id'], t['base'], [c]])
            elif not ab:
                c = next(neg)
                table.append([t['id'], t['base'], [c]])
            else:
                table.append([t['id'], t['base'], [next(neg)]])
            actions.append([2, pending.index(t), int(ab)])
            pending.remove(t)
            t['result'] = e
            results.append(t)
            if not g['parallel']:
                actions.append([3, results.index(t)])
                results.remove(t)
                if e['success']:
                    actions.append([4])          # sequential mode continues with the next subset = restart at id+1
                    index = e['id'] + 1
        elif e['ev'] == 'ddmin_update':
            cur = idx(e['digest'])
            writes.append(cur)
            if g['parallel']:
                # the adopted result: the (first) outstanding success with this candidate
                cands_ = [t for t in results if t['result']['success'] and idx(t['result']['cand']) == cur]
                if not cands_:
                    return dict(error='adopted a result that no worker produced')
                t = cands_[0]
                actions.append([3, results.index(t)])
                results.remove(t)
                stopped = True
        elif e['ev'] == 'ddmin_reset':
            # end of the round: everything outstanding is consumed (ignored), then the generator restarts
            if pending:
                return dict(error=f'{len(pending)} tasks without result at the end of a round')
            for _ in list(results):
                actions.append([3, 0])
            results = []
            actions.append([4])
            index = e['index']
            stopped = False
    if g['parallel']:
        if pending:
            return dict(error=f'{len(pending)} tasks without result at the end')
        for _ in list(results):
            actions.append([3, 0])
        results = []
    if not stopped:
        for _ in range(index, n):
            actions.append([0])
    actions.append([4])
    return dict(arg=[n, init, table, [[c, 1] for c in accept], actions], writes=writes, final=cur, nactions=len(actions))


def compare(res, built):
    bad, cur, done, writes = res
    problems = []
    if bad != -1:
        return [f'the ddmin model does not allow action #{bad} of the reconstructed history']
    if writes != built['writes']:
        problems.append(f'write history differs: run {built["writes"]}, model {writes}')
    if cur != built['final']:
        problems.append(f'final input differs: run #{built["final"]}, model #{cur}')
    if not done:
        problems.append('the task generator finished but the model has not')
    return problems
