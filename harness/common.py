"""Shared machinery of the /verif checks: Coq build + obligation accounting,
OCaml model driver, wire encoding, evidence/known-findings/replay handling.

Run with /venv/bin/python (ddsmt's dependencies) -- see ./check.
"""
import fcntl
import hashlib
import json
import os
import random
import re
import subprocess
import sys
import time

VERIF = os.path.dirname(os.path.dirname(os.path.abspath(__file__)))
REPO = os.environ.get('VERIF_REPO', '/repo')
COQ = os.path.join(VERIF, 'coq')
THEORIES = os.path.join(COQ, 'theories')
OCAML = os.path.join(VERIF, 'ocaml')
EVID = os.path.join(VERIF, 'evidence')
REPLAYS = os.path.join(VERIF, 'replays')
CORPUS = os.path.join(VERIF, 'corpus')
PY = '/venv/bin/python'
NCPU = os.cpu_count() or 4

FORBIDDEN = re.compile(
    r'\b(Admitted|admit|Axiom|Axioms|Parameter|Parameters|Conjecture|Conjectures|'
    r'Admit Obligations|bypass_check|Unset Guard Checking|Unset Positivity Checking|'
    r'Unset Universe Checking|type-in-type|impredicative-set)\b')


def sh(cmd, timeout=600, cwd=None, env=None, input=None):
    """Run a command, return (rc, combined output)."""
    try:
        p = subprocess.run(cmd, cwd=cwd, env=env, input=input, timeout=timeout,
                           stdout=subprocess.PIPE, stderr=subprocess.STDOUT,
                           text=True, shell=isinstance(cmd, str))
        return p.returncode, p.stdout
    except subprocess.TimeoutExpired as e:
        out = e.stdout or ''
        if isinstance(out, bytes):
            out = out.decode(errors='replace')
        return 124, out + '\n[timeout]'


# ---------------------------------------------------------------------------
# wire format


def w_str(s):
    return [ord(c) for c in s]


def r_str(w):
    return ''.join(chr(c) for c in w)


def wire_dump(w):
    if isinstance(w, bool):
        return '1' if w else '0'
    if isinstance(w, int):
        return str(w)
    return '(' + ' '.join(wire_dump(x) for x in w) + ')'


def wire_parse(s):
    toks = s.replace('(', ' ( ').replace(')', ' ) ').split()
    stack = [[]]
    for t in toks:
        if t == '(':
            stack.append([])
        elif t == ')':
            x = stack.pop()
            stack[-1].append(x)
        else:
            stack[-1].append(int(t))
    assert len(stack) == 1 and len(stack[0]) == 1, s[:200]
    return stack[0][0]


def coq_wire(w):
    """Render a wire value as a Coq term of type wire."""
    if isinstance(w, bool):
        w = int(w)
    if isinstance(w, int):
        return f'WN ({w})%Z'
    return 'WL [' + '; '.join(coq_wire(x) for x in w) + ']'


# shapes (pure s-expression structure): python repr is str (leaf) or tuple


def w_shape(e):
    if isinstance(e, str):
        return [0, w_str(e)]
    return [1] + [w_shape(x) for x in e]


def r_shape(w):
    if w[0] == 0:
        return r_str(w[1])
    return tuple(r_shape(x) for x in w[1:])


def w_shapes(es):
    return [w_shape(e) for e in es]


def r_shapes(w):
    return [r_shape(x) for x in w]


# ---------------------------------------------------------------------------
# build


class BuildError(Exception):
    pass


def _lock():
    f = open(os.path.join(COQ, '.build.lock'), 'w')
    fcntl.flock(f, fcntl.LOCK_EX)
    return f


def list_v_files():
    res = []
    for root, _, files in os.walk(THEORIES):
        for fn in files:
            if fn.endswith('.v') and fn != 'Extract.v':
                res.append(os.path.relpath(os.path.join(root, fn), COQ))
    return sorted(res)


def write_if_changed(path, content):
    try:
        if open(path).read() == content:
            return False
    except FileNotFoundError:
        pass
    os.makedirs(os.path.dirname(path), exist_ok=True)
    with open(path, 'w') as f:
        f.write(content)
    return True


def regen_makefile():
    proj = ('-Q theories DD\n'
            '-arg -w -arg -notation-overridden,-deprecated-hint-without-locality,'
            '-deprecated-instance-without-locality,-unknown-option\n'
            + '\n'.join(list_v_files()) + '\n')
    changed = write_if_changed(os.path.join(COQ, '_CoqProject'), proj)
    if changed or not os.path.exists(os.path.join(COQ, 'Makefile')):
        rc, out = sh(['coq_makefile', '-f', '_CoqProject', '-o', 'Makefile'], cwd=COQ)
        if rc != 0:
            raise BuildError(out)


def coq_make(targets, timeout=1500, jobs=None, keep_going=False):
    """make the given .vo targets (paths relative to coq/). Returns (ok, log)."""
    lock = _lock()
    try:
        regen_makefile()
        cmd = ['timeout', str(timeout), 'make', f'-j{jobs or min(8, NCPU)}'] + (['-k'] if keep_going else []) + list(targets)
        rc, out = sh(cmd, cwd=COQ, timeout=timeout + 30)
        return rc == 0, out
    finally:
        lock.close()


def coq_closure(vfile):
    """All project .v files [vfile] (relative to coq/) depends on, incl. itself."""
    seen = set()
    todo = [vfile]
    while todo:
        f = todo.pop()
        if f in seen:
            continue
        seen.add(f)
        try:
            src = open(os.path.join(COQ, f)).read()
        except FileNotFoundError:
            continue
        for m in re.finditer(r'From\s+DD\s+Require\s+(?:Import\s+|Export\s+)?([^.]*(?:\.[A-Za-z_][\w.]*)*)\s*\.\s', src):
            pass
        for m in re.finditer(r'From\s+DD\s+Require\s+(?:Import|Export)?\s*((?:[A-Za-z_][\w]*(?:\.[A-Za-z_]\w*)*\s*)+)\.', src):
            for mod in m.group(1).split():
                todo.append('theories/' + mod.replace('.', '/') + '.v')
    return sorted(seen)


STMT = re.compile(r'^\s*(?:Local\s+|Global\s+|#\[[^\]]*\]\s*)*(Theorem|Lemma|Corollary|Example|Fact|Remark|Proposition)\s+([A-Za-z_][\w\']*)', re.M)
ENDP = re.compile(r'\b(Qed|Defined)\s*\.')


def strip_comments(src):
    out = []
    depth = 0
    i = 0
    while i < len(src):
        if src.startswith('(*', i):
            depth += 1
            i += 2
        elif src.startswith('*)', i) and depth:
            depth -= 1
            i += 2
        else:
            if not depth:
                out.append(src[i])
            i += 1
    return ''.join(out)


def count_obligations(files):
    """(#statements, #closed proofs, names, forbidden hits) over the given .v files whose .vo exists."""
    n_stmt = n_qed = 0
    names = []
    bad = []
    for f in files:
        p = os.path.join(COQ, f)
        src = strip_comments(open(p).read())
        vo = p[:-2] + '.vo'
        stm = STMT.findall(src)
        q = len(ENDP.findall(src))
        for m in FORBIDDEN.finditer(src):
            bad.append(f'{f}: {m.group(0)}')
        if os.path.exists(vo) and os.path.getmtime(vo) >= os.path.getmtime(p):
            n_stmt += len(stm)
            n_qed += min(q, len(stm))
            names += [f'{os.path.basename(f)[:-2]}.{n}' for _, n in stm]
        else:
            n_stmt += len(stm)
            names += [f'{os.path.basename(f)[:-2]}.{n} (NOT COMPILED)' for _, n in stm]
    return n_stmt, n_qed, names, bad


def prove(prop_file, timeout=1500, also=()):
    """Build Props/<prop_file>.vo (full .vo), then re-run coqc on the property
    file itself to capture Print Assumptions.  Returns dict.
    also: further property files of the same property that cannot be imported by <prop_file> (they import it)."""
    t0 = time.time()
    vfile = f'theories/Props/{prop_file}.v'
    vfiles = [vfile] + [f'theories/Props/{f}.v' for f in also]
    closure = []
    for vf in vfiles:
        closure += [c for c in coq_closure(vf) if c not in closure]
    ok, log = coq_make([vf + 'o' for vf in vfiles], timeout=timeout)
    assumptions = ''
    if ok:
        for vf in vfiles:
            lock = _lock()
            try:
                rc, out = sh(['timeout', '600', 'coqc', '-Q', 'theories', 'DD',
                              '-w', '-notation-overridden,-unknown-option', vf], cwd=COQ, timeout=630)
            finally:
                lock.close()
            if rc != 0:
                ok = False
                log += '\n' + out
            assumptions += out
    coqchk = None
    if ok and os.environ.get('VERIF_COQCHK') == '1':
        # independent re-check of the compiled closure and the axioms it relies on (thorough tier)
        lock = _lock()
        try:
            rc, out2 = sh(['timeout', '1500', 'coqchk', '-silent', '-o', '-Q', 'theories', 'DD'] + [f'DD.Props.{f}' for f in [prop_file] + list(also)], cwd=COQ, timeout=1530)
        finally:
            lock.close()
        coqchk = dict(rc=rc, tail=out2[-1500:])
        if rc != 0:
            ok = False
            log += '\ncoqchk failed:\n' + out2[-2000:]
    n_stmt, n_qed, names, bad = count_obligations(closure)
    axioms = sorted(set(re.findall(r'^([A-Za-z_][\w.]*)\s*:', assumptions, re.M)))
    closed = assumptions.count('Closed under the global context')
    return dict(ok=ok and not bad and n_stmt == n_qed, make_ok=ok, log=log[-6000:], closure=closure,
                obligations=n_stmt, discharged=n_qed if ok else 0, names=names,
                forbidden=bad, assumptions=assumptions[-4000:], axioms=axioms, coqchk=coqchk,
                closed_count=closed, wall=time.time() - t0)


def build_driver(timeout=600):
    """Extract Run/Dispatch.v to OCaml and build ocaml/driver. Returns (ok, log)."""
    ok, log = coq_make(['theories/Run/Dispatch.vo'], timeout=timeout)
    if not ok:
        return False, log
    lock = _lock()
    try:
        gen = os.path.join(OCAML, 'gen')
        os.makedirs(gen, exist_ok=True)
        stamp = os.path.join(gen, '.stamp')
        srcs = [os.path.join(THEORIES, 'Run', 'Dispatch.vo'), os.path.join(OCAML, 'driver.ml'),
                os.path.join(THEORIES, 'Run', 'Extract.v')]
        drv = os.path.join(OCAML, 'driver')
        if os.path.exists(drv) and os.path.exists(stamp) and \
                all(os.path.getmtime(stamp) >= os.path.getmtime(s) for s in srcs):
            return True, 'driver up to date'
        rc, out = sh(['coqc', '-Q', '../../coq/theories', 'DD', '-w', '-all',
                      '../../coq/theories/Run/Extract.v'], cwd=gen, timeout=timeout)
        if rc != 0:
            return False, out
        rc, out2 = sh('ocamlfind ocamlopt -w -a -O3 -I gen gen/model.mli gen/model.ml driver.ml -o driver',
                      cwd=OCAML, timeout=timeout)
        if rc != 0:
            return False, out + out2
        open(stamp, 'w').write(str(time.time()))
        return True, out + out2
    finally:
        lock.close()


class Model:
    """Batch interface to the extracted model."""

    def __init__(self):
        self.bin = os.path.join(OCAML, 'driver')

    def batch(self, calls, timeout=900):
        """calls: list of (fnum, wire). Returns list of wire results."""
        if not calls:
            return []
        nshard = min(NCPU, max(1, len(calls) // 200))
        shards = [calls[i::nshard] for i in range(nshard)]
        procs = []
        for sh_ in shards:
            inp = '\n'.join(f'{f} {wire_dump(w)}' for f, w in sh_) + '\n'
            p = subprocess.Popen(['bash', '-c', f'ulimit -s unlimited 2>/dev/null; exec {self.bin}'],
                                 stdin=subprocess.PIPE, stdout=subprocess.PIPE, text=True)
            procs.append((p, inp))
        outs = []
        import threading
        results = [None] * nshard

        def feed(i, p, inp):
            o, _ = p.communicate(inp, timeout=timeout)
            results[i] = o
        ths = [threading.Thread(target=feed, args=(i, p, inp)) for i, (p, inp) in enumerate(procs)]
        for t in ths:
            t.start()
        for t in ths:
            t.join()
        res = [None] * len(calls)
        for i in range(nshard):
            lines = (results[i] or '').strip('\n').split('\n')
            idxs = list(range(i, len(calls), nshard))
            if len(lines) != len(idxs):
                raise BuildError(f'model driver returned {len(lines)} lines for {len(idxs)} calls')
            for k, line in zip(idxs, lines):
                res[k] = wire_parse(line)
        return res

    def vm_shard(self, calls, name='shard', timeout=600):
        """Evaluate the same calls inside Coq with vm_compute; returns list of wires."""
        src = ['From DD Require Import Base.Wire Run.Dispatch.', 'Require Import ZArith List. Import ListNotations.',
               'Open Scope Z_scope.']
        src.append('Fixpoint pw (w : wire) : list Z := match w with WN n => [n] | WL l => (-1000001) :: flat_map pw l ++ [-1000002] end.')
        for i, (f, w) in enumerate(calls):
            src.append(f'Eval vm_compute in pw (dispatch {f} ({coq_wire(w)})).')
        d = os.path.join(COQ, 'scratch')
        os.makedirs(d, exist_ok=True)
        path = os.path.join(d, f'{name}.v')
        open(path, 'w').write('\n'.join(src) + '\n')
        rc, out = sh(['bash', '-c', f'ulimit -s unlimited 2>/dev/null; timeout {timeout} coqc -Q theories DD scratch/{name}.v'],
                     cwd=COQ, timeout=timeout + 30)
        for ext in ('.v', '.vo', '.vok', '.vos', '.glob'):
            try:
                os.remove(os.path.join(d, name + ext))
            except OSError:
                pass
        try:
            os.remove(os.path.join(d, '.' + name + '.aux'))
        except OSError:
            pass
        if rc != 0:
            raise BuildError(out[-3000:])
        res = []
        for m in re.finditer(r'=\s*\[(.*?)\]\s*:\s*list Z', out, re.S):
            nums = [int(x) for x in re.findall(r'-?\d+', m.group(1))]
            stack = [[]]
            for n in nums:
                if n == -1000001:
                    stack.append([])
                elif n == -1000002:
                    x = stack.pop()
                    stack[-1].append(x)
                else:
                    stack[-1].append(n)
            res.append(stack[0][0])
        return res


# ---------------------------------------------------------------------------
# context / verdict


def digest(obj):
    return hashlib.sha256(json.dumps(obj, sort_keys=True, default=str).encode()).hexdigest()[:12]


class Ctx:
    def __init__(self, pid, tier, seed):
        self.pid = pid
        self.tier = tier
        self.seed = seed
        self.rng = random.Random(seed * 1000003 + int(pid[1:]))
        self.t0 = time.time()
        self.evaluations = 0
        self.nontrivial = set()
        self.samples = []
        self.rule = ''
        self.dist = {}
        self.disagreements = []     # model vs implementation
        self.violations = []        # dicts -> replay files
        self.known_hits = []
        self.proof = None
        self.assumptions = []
        self.extra = {}
        self.notes = []
        self.trusted = []
        kf = json.load(open(os.path.join(VERIF, 'known_findings.json')))
        self.known = [k for k in kf.get('findings', []) if k['property'] == pid]
        self.fixed = [k for k in kf.get('fixed', []) if k['property'] == pid]

    @property
    def thorough(self):
        return self.tier == 'thorough'

    def count(self, key, n=1):
        self.dist[key] = self.dist.get(key, 0) + n

    def case(self, canon, nontrivial=True, sample=None):
        self.evaluations += 1
        if nontrivial:
            self.nontrivial.add(digest(canon))
        if sample is not None and len(self.samples) < 6:
            self.samples.append(sample)

    def disagree(self, what, **kw):
        d = dict(kind='correspondence-broken', function=what, **kw)
        self.disagreements.append(d)

    def violation(self, kind, **kw):
        """kind: impl-violation | proof-broken | correspondence-broken"""
        d = dict(property=self.pid, kind=kind, **kw)
        # known finding?
        key = kw.get('finding_key')
        if key:
            for k in self.known:
                if k['key'] == key:
                    self.known_hits.append((k, d))
                    return
        self.violations.append(d)

    def write_replay(self, d):
        os.makedirs(REPLAYS, exist_ok=True)
        path = os.path.join(REPLAYS, f'{self.pid}-{digest(d)}.json')
        with open(path, 'w') as f:
            json.dump(d, f, indent=1, default=str)
        return path

    def finish(self):
        lines = []
        rc = 0
        # proof
        if self.proof is not None and not self.proof['ok']:
            self.violations.append(dict(
                property=self.pid, kind='proof-broken',
                theorem=f'Props/{self.pid}.v closure',
                detail=dict(make_ok=self.proof['make_ok'], forbidden=self.proof['forbidden'],
                            obligations=self.proof['obligations'], discharged=self.proof['discharged'],
                            log=self.proof['log'][-3000:]),
                how_to_replay=f'cd /verif && ./check {self.pid} --quick'))
        impl = [v for v in self.violations if v['kind'] == 'impl-violation']
        other = [v for v in self.violations if v['kind'] != 'impl-violation']
        if self.disagreements and not impl:
            other.append(dict(property=self.pid, kind='correspondence-broken',
                              disagreements=self.disagreements[:10],
                              how_to_replay=f'cd /verif && ./check {self.pid} --quick'))
        seen_known = set()
        for k, d in self.known_hits:
            seen_known.add(k['key'])
        for k in self.known:
            lines.append(f"KNOWN-FINDING: property={self.pid} {k['key']}: {k['what']}"
                         f" [{'reproduced in this run' if k['key'] in seen_known else 'not re-triggered by the inputs of this run'}]")
        if impl:
            rc = 1
            # one line per distinct violation (max 5), first is the smallest
            for v in impl[:5]:
                v.setdefault('also_broken', [o.get('theorem') or o.get('kind') for o in other])
                lines.append(f'VIOLATION property={self.pid} replay={self.write_replay(v)}')
                lines.append('  what: ' + ' '.join(str(v.get('observed', v.get('kind')))[:300].split()))
        elif other:
            rc = 1
            v = other[0]
            if len(other) > 1:
                v['others'] = other[1:]
            lines.append(f'VIOLATION property={self.pid} replay={self.write_replay(v)} no-failing-input-found')
            lines.append('  what: ' + ' '.join(str(v.get('theorem') or (v.get('disagreements') or [{}])[0].get('function') or v.get('kind'))[:300].split()))
        cov = dict(
            evaluations=self.evaluations,
            distinct_nontrivial=len(self.nontrivial),
            rule=self.rule,
            samples=self.samples[:6] or ['(no generated cases in this run)'],
            distribution=self.dist,
            disagreements=len(self.disagreements),
            known_findings_reproduced=sorted(seen_known),
        )
        if self.proof is not None:
            cov.update(
                obligations=self.proof['obligations'],
                discharged=self.proof['discharged'],
                checker_cmd=f'cd /verif/coq && coq_makefile -f _CoqProject -o Makefile && make theories/Props/{self.pid}.vo '
                            f'&& coqc -Q theories DD theories/Props/{self.pid}.v  (Coq 8.16.1, full .vo build)',
                trusted_base=self.trusted + [
                    'Coq 8.16.1 kernel (coqc; vm_compute used, native_compute not used)',
                    'Print Assumptions: ' + (', '.join(self.proof['axioms']) if self.proof['axioms'] else
                                             f"all {self.proof['closed_count']} property theorems closed under the global context"),
                    'extraction: ExtrOcamlBasic only; OCaml 4.13.1; ocaml/driver.ml',
                    'python harness (generators, canonicaliser, differ) under /verif/harness',
                ],
                theorems=self.proof['names'][-60:],
                proof_files=self.proof['closure'],
                print_assumptions=self.proof['assumptions'][-2500:],
                coqchk=self.proof.get('coqchk'),
            )
        cov.update(self.extra)
        ev = dict(property_id=self.pid, tier=self.tier, seed=self.seed, level='proof',
                  coverage=cov, assumptions=self.assumptions, wall_s=round(time.time() - self.t0, 2),
                  violations=len(impl) + len(other), notes=self.notes)
        os.makedirs(EVID, exist_ok=True)
        with open(os.path.join(EVID, f'{self.pid}.json'), 'w') as f:
            json.dump(ev, f, indent=1, default=str)
        for ln in lines:
            print(ln)
        print(f'[{self.pid}] tier={self.tier} seed={self.seed} evaluations={self.evaluations} '
              f'nontrivial={len(self.nontrivial)} disagreements={len(self.disagreements)} '
              f'obligations={cov.get("obligations")} discharged={cov.get("discharged")} '
              f'violations={len(impl) + len(other)} wall={ev["wall_s"]}s')
        return rc


class Hang(Exception):
    pass


class time_limit:
    """Watchdog for in-process calls into the implementation (SIGALRM)."""

    def __init__(self, seconds):
        self.seconds = seconds

    def __enter__(self):
        import signal

        def handler(signum, frame):
            raise Hang(f'no result within {self.seconds} s')
        self.old = signal.signal(signal.SIGALRM, handler)
        signal.setitimer(signal.ITIMER_REAL, self.seconds)

    def __exit__(self, *a):
        import signal
        signal.setitimer(signal.ITIMER_REAL, 0)
        signal.signal(signal.SIGALRM, self.old)
        return False


def setup_ddsmt(argv=None):
    """Import ddsmt from REPO inside this process (harness side)."""
    import multiprocessing
    try:
        multiprocessing.set_start_method('fork')
    except RuntimeError:
        pass
    sys.argv = argv or ['ddsmt', 'in.smt2', 'out.smt2', 'cmd']
    if REPO not in sys.path:
        sys.path.insert(0, REPO)
