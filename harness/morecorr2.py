"""TIE-C for Model/ConstRw.v (dispatch 110-118): BVConcatToZeroExtend, BVSimplifyConstants, BVTransformToBool,
BVZeroExtendPredicate, ArithmeticSimplifyConstant, ArithmeticSplitNaryRelation, SeqNthUnit, StringIndexOfNotFound and
StringReplaceAll, compared with filter + mutations of the implementation on every node of the given texts, of targeted
well-formed texts and of a malformed corpus per mutator.  None of the models takes an oracle (get_bv_width is only asked
about constants), so the call carries the node alone.  An exception escaping filter or mutations (a generator is consumed
completely) is the model's None."""
import common
from common import w_shape, w_shapes

CODES = {'BVConcatToZeroExtend': 110, 'BVSimplifyConstants': 111, 'BVTransformToBool': 112, 'BVZeroExtendPredicate': 113,
         'ArithmeticSimplifyConstant': 114, 'ArithmeticSplitNaryRelation': 115, 'SeqNthUnit': 116,
         'StringIndexOfNotFound': 117, 'StringReplaceAll': 118}

BIG = '1' + '0' * 400                      # float() = inf
P1024 = str(2 ** 1024)
TIE = str(2 ** 1024 - 2 ** 970)            # half way between the largest double and 2^1024: rounds to inf
MAXD = str(2 ** 1024 - 2 ** 970 - 1)       # rounds to the largest double
SUB = '17' + '0' * 306                     # 1/SUB is subnormal

MALFORMED = {
    'BVConcatToZeroExtend': [
        '(concat)', '(concat #b0)', '(concat #b)', '(concat #b x)', '(concat #x x)', '(concat #x)', '(concat (_ bv0 x) y)',
        '(concat (_ bv0 (3)) y)', '(concat (_ bv-0 3) y)', '(concat (_ bv+0 -3) y)', '(concat (_ bv0_0 3) y)', '(concat (_ bv 3) y)',
        '(concat (_ bvX 3) y)', '(concat (_ bv0 3))', '(concat #b00 x y z)', '(concat #b01 x)', '(concat x #b0)', '((concat) #b0 x)',
        '(concat (_ bv0) x)', '(concat (_ bv0 1 2) x)', '(concat #b0_0 x)', '(concat #xG x)', '(concat #B0 x)', '(concat (_ bv00 3_0) y)',
        '(concat (_ bv0__0 3) y)', '(concat (_ bv_0 3) y)', '(concat (_ bv0_ 3) y)', '(concat (_ bv0 3_) y)', '(concat (_ bv0 _3) y)',
        '(concat (_ bv0 +) y)', '(concat (_ bv- 3) y)', '(concat (_ bv0 0) y)', '(concat (_ bv0 "3") y)', '(concat (_ bv0 |3|) y)',
        '(concat (_ (bv0) 3) y)', '(concat (x bv0 3) y)', '(concat ((_) bv0 3) y)', '(concat #x00 (concat #b0 y))', '(concat #X00 y)',
        '(concat #b0 ())', '(concat () #b0)', 'concat', '(concat #b0 ; c\n x)', '(concat (_ bv0 ; c\n 3) y)'],
    'BVSimplifyConstants': [
        '#b', '#x', '#b2', '#b10', '#b11', '#xff', '#xFF', '#xfF0', '(_ bv5 3)', '(_ bv5 -3)', '(_ bv-5 8)', '(_ bv-1 8)', '(_ bv-64 8)',
        '(_ bv-65 8)', '(_ bv-2 1)', '(_ bv5 0)', '(_ bv5 x)', '(_ bv5 (3))', '(_ bv255 8)', '(_ bv1_000 16)', '(_ bvx 8)', '(_ bv 8)',
        '(_ bv+7 +8)', '(_ bv2 1)', '(_ bv1 x)', '(_ bv0 x)', '(_ bv-0 2)', '(_ bv-1 -12)', '(_ bv64 -12)', '(_ bv63 2)', '(_ bv16 2)',
        '(_ bv15 2)', '(_ bv3 2)', '(_ bv2 2)', '(_ bv5 1_0)', '(_ bv4294967296 64)', '(_ bv5)', '(_ bv5 3 4)', '(x bv5 3)', '(_ (bv5) 3)',
        '(_ bV5 3)', '#b1_0', '#b-1', '#x-1', '(_ bv5 ; c\n 3)'],
    'BVTransformToBool': [
        '(= #b1)', '(= #b1 (bvor))', '(= #b1 (bvor x))', '(= (bvor x y) #b1)', '(= #b1 #b0)', '(= (_ bv1 x) (bvand a b))',
        '(= (_ bv1 (1)) (bvand a b))', '(= (bvand a b) (_ bv1 x))', '(= #b11 (bvand a b))', '(= #b11 (_ bvX y))', '(= (_ bv0 +1) (bvxor a b c))',
        '(= #b1 ((bvor) x))', '(= #b1 (bvnot x))', '(= #b1 (bvor x y) z)', '(= #b (bvor x y))', '(= #x1 (bvor x y))', '(= x (bvor a b))',
        '(= #b1 bvor)', '(= (bvand a b) (bvor c d))', '(= #b1 ())', '(= () #b1)', '(= (_ bv1 1) (bvxor x y))', '(= (_ bvX 1) (bvxor x y))',
        '(= (_ bv 1) (bvxor x y))', '(= (bvxor x y) (_ bvX 1))', '(= (_ bv7 1_0) (bvxor x y))', '(= (_ bv7 0_1) (bvand x y))', '(= #b0 (bvand #b1 (bvor x y)))',
        '(= #b1 (_ bv1 x))', '(= (_ bv1 x) #b1)', '(= #b11 #b1)', '(= (bvor a b) (_ bv0 2))', '((=) #b1 (bvor x y))', '(distinct #b1 (bvor x y))',
        '(= #b0 (bvand))', '(= (bvxor) #b0)', '(= #b1 (bvor x y)) (= (bvor x y) #b0)', '(= #b1 (bvor (bvand a b) #b0))'],
    'BVZeroExtendPredicate': [
        '(bvult ((_ zero_extend 2)) ((_ zero_extend 2) x))', '(bvult ((_ zero_extend 2) x) ((_ zero_extend 2)))', '(= ((_ zero_extend x) a) ((_ zero_extend 2) b))',
        '(= ((_ zero_extend -1) a) ((_ zero_extend +2) b))', '(= ((_ zero_extend 1_0) a) ((_ zero_extend 2) b))', '(= ((_ zero_extend (1)) a) ((_ zero_extend 2) b))',
        '(= ((_ zero_extend 2) a b) ((_ zero_extend 2) c d))', '(= ((_ zero_extend 2 3) a) ((_ zero_extend 2) b))', '(= ((zero_extend 2) a) ((_ zero_extend 2) b))',
        '(= ((x zero_extend 2) a) ((_ zero_extend 2) b))', '(= (((y) zero_extend 2) a) ((_ zero_extend 3) b))', '(bvfoo ((_ zero_extend 2) a) ((_ zero_extend 2) b))',
        '(= ((_ zero_extend 2) a) ((_ zero_extend 2) b) ((_ zero_extend 2) c))', '(= ((_ sign_extend 2) a) ((_ zero_extend 2) b))', '((_ zero_extend 2) a)',
        '(= (_ zero_extend 2) (_ zero_extend 2))', '(= ((_ zero_extend 2) a))', '(= ((_ zero_extend 02) a) ((_ zero_extend 2) b))', '(= ((_ zero_extend -2) a) ((_ zero_extend -5) b))',
        '(= ((_ zero_extend 2) a) ((_ zero_extend y) b))', '(= ((_ zero_extend) a) ((_ zero_extend 2) b))', '(= ((_ (zero_extend) 2) a) ((_ zero_extend 2) b))',
        '(bvsge ((_ zero_extend 7) ()) ((_ zero_extend 2) ()))', '(bvsle ((_ zero_extend 0) a) ((_ zero_extend 0) b))', '((=) ((_ zero_extend 2) a) ((_ zero_extend 2) b))',
        '(bvugt x ((_ zero_extend 2) b))', '(bvugt () ((_ zero_extend 2) b))', '(bvuge ((_ zero_extend 2) b) (()))', '(= ((_ zero_extend "2") a) ((_ zero_extend 2) b))',
        '(= ((_ zero_extend 2_) a) ((_ zero_extend _2) b))'],
    'ArithmeticSimplifyConstant': [
        '0', '1', '00', '01', '1.0', '0.', '1.', '2.', '2.5', '0.5', '.5', '5.', '1e5', '9007199254740993', '9007199254740992', '9007199254740991',
        '18014398509481985', '18014398509481986', '18014398509481987', '36028797018963970', BIG, '0.' + '0' * 400 + '1', '0.99999999999999999999',
        '1.00000000000000000001', '123456789.123456789', '(/ 1 3)', '(/ 1 0)', '(/ 0 0)', '(/ 6 3)', '(/ 2 2)', '(/ 7 2)', '(/ 1.0 2)', '(/ 1 2 3)', '(/ 1)',
        '(/ x 2)', '(/ (/ 1 2) 3)', f'(/ {BIG} {BIG})', f'(/ {BIG} 3)', f'(/ 3 {BIG})', f'(/ 1 {SUB})', f'(/ 3 {SUB})', f'(/ 7 {SUB}0000000000000)', f'(/ 1 {SUB}00000000000000000)',
        '(/ 0 5)', '4.35', '0.1', '2.675', P1024, TIE, MAXD, '0.' + '0' * 322 + '3', '0.' + '0' * 323 + '2', '0.' + '0' * 323 + '3', '0.' + '0' * 307 + '2225073858507201',
        '2.0000000000000000001', '2.0000000000000004', '2.00000000000000022', '4503599627370496.5', '4503599627370497.5', '4503599627370495.5', '9007199254740992.5',
        '12.', '12.00', '0.0', '000.000', '1.000', '1_0', '+5', '-5', '1.5.5', '1..5', '(/ 10 4)', '(/ 9007199254740993 3)', '(/ 1 9007199254740993)', '(/ 10 0)', '(/ 0 0.0)',
        '(/ 00 7)', '(/ 7 00)', '((/) 1 2)', '(/ 123456789012345678901234567890 7)', '123456789012345678901234567890', '0.30000000000000004', '1.9999999999999999',
        '1.99999999999999988', '1.99999999999999989', '(/ 1 10)', '(/ 22 7)', '(/ 1 ())', '(/ () 1)', '(/ 3 "1")'],
    'ArithmeticSplitNaryRelation': [
        '(< a b c)', '(< a b)', '(<)', '(< a)', '(= a b c d)', '(distinct a b c)', '(!= a b c)', '(<> a b c)', '(>= a b c)', '(<= 1 2 3)', '(> (f) () x)', '((<) a b c)',
        '(and a b c)', '(= (< a b c) (> c b a) true)', '(< a a a a a a)', '<', '(< (< 1 2 3) 4 5)', '(=> a b c)', '(=< a b c)', '(== a b c)'],
    'SeqNthUnit': [
        '(seq.nth)', '(seq.nth (seq.unit))', '(seq.nth (seq.unit x))', '(seq.nth (seq.unit x) 0)', '(seq.nth (seq.unit x y) 5)', '(seq.nth seq.unit 0)',
        '(seq.nth x (seq.unit y))', '(seq.nth ((seq.unit) x) 0)', '(seq.nth (seq.unit ()) 0)', '(seq.nth () 0)', '((seq.nth) (seq.unit x) 0)',
        '(seq.nth (seq.unit (seq.nth (seq.unit y) 0)) 0)', '(seq.at (seq.unit x) 0)', 'seq.nth'],
    'StringIndexOfNotFound': ['(str.indexof)', '(str.indexof s "a" 0)', 'str.indexof', '((str.indexof) x)', '(str.indexof x)', '(str.indexof (str.indexof a b 0) "x" 1)',
                              '(str.index s "a" 0)', '(str.indexof ())'],
    'StringReplaceAll': ['(str.replace_all)', '(str.replace_all s "a" "b")', '(str.replace_all s)', 'str.replace_all', '((str.replace_all))', '(str.replace_all ())',
                         '(str.replace_all (str.replace_all s "a" "b") "c" "d" e f)', '(str.replace s "a" "b")', '(str.replace_re_all s r "b")'],
}


def targeted(rng):
    """well-formed inputs aimed at each mutator"""
    out = []
    decl = '(declare-const x (_ BitVec 4))(declare-const y (_ BitVec 4))(declare-const z (_ BitVec 8))(declare-const p (_ BitVec 1))(declare-const q (_ BitVec 1))' \
           '(declare-const i Int)(declare-const j Int)(declare-const k Int)(declare-const r Real)(declare-const s String)(declare-const t String)'

    def const(v, w, notation):
        if notation == 'b':
            return '#b' + format(v, f'0{w}b')
        if notation == 'x' and w % 4 == 0:
            return '#x' + format(v, f'0{w // 4}x')
        if notation == 'X' and w % 4 == 0:
            return '#x' + format(v, f'0{w // 4}X')
        return f'(_ bv{v} {w})'
    # concat with zero / non-zero constants, binary and n-ary
    ts = []
    for w in (1, 2, 4, 8, 12):
        for nt in 'bxXu':
            for v in (0, 1, 2 ** w - 1):
                ts.append(f'(assert (= (concat {const(v, w, nt)} x) (concat {const(0, w, nt)} x y z)))')
            ts.append(f'(assert (= (concat x {const(0, w, nt)}) (concat {const(0, w, nt)} (concat {const(0, w, nt)} x))))')
    out.append(decl + ''.join(ts))
    # constants 0, 1, 2, 255 ... in all notations and widths
    ts = []
    for w in (1, 2, 3, 4, 7, 8, 9, 16, 32, 64, 65):
        for v in (0, 1, 2, 3, 7, 8, 31, 32, 33, 63, 64, 65, 255, 256, 1000, 2 ** w - 1, 2 ** w, rng.randrange(2 ** w)):
            for nt in 'bxXu':
                if v < 2 ** w or nt == 'u':
                    ts.append(f'(assert (= z {const(v, w, nt)}))')
    out.append(decl + ''.join(ts))
    # (= c (bvop ...)) with width-1 constants on either side, and wider constants
    ts = []
    for c in ('#b1', '#b0', '(_ bv1 1)', '(_ bv0 1)', '#b01', '#x1', '(_ bv1 2)', 'p'):
        for op in ('bvor', 'bvand', 'bvxor', 'bvnor', 'bvadd'):
            for args in ('p q', 'p q p', 'p', '(bvor p q) q', '#b1 q'):
                ts.append(f'(assert (= {c} ({op} {args})))')
                ts.append(f'(assert (= ({op} {args}) {c}))')
    ts.append('(assert (= #b1 #b0))(assert (= #b1 (bvor p q) p))')
    out.append(decl + ''.join(ts))
    # zero_extend under predicates
    ts = []
    for pred in ('=', 'distinct', 'bvult', 'bvule', 'bvugt', 'bvuge', 'bvslt', 'bvsle', 'bvsgt', 'bvsge', 'bvcomp', 'bvadd'):
        for a, b in ((2, 2), (0, 0), (1, 3), (3, 1), (0, 4), (10, 9), (9, 10), (100, 1)):
            ts.append(f'(assert ({pred} ((_ zero_extend {a}) x) ((_ zero_extend {b}) y)))')
        ts.append(f'(assert ({pred} ((_ zero_extend 2) x) ((_ sign_extend 2) y)))')
        ts.append(f'(assert ({pred} ((_ zero_extend 2) x) z))')
        ts.append(f'(assert ({pred} ((_ zero_extend 2) ((_ zero_extend 1) x)) ((_ zero_extend 1) ((_ zero_extend 2) y))))')
    out.append(decl + ''.join(ts))
    # numerals, decimals, quotients
    ts = []
    nums = ['0', '1', '2', '3', '7', '9', '10', '11', '19', '20', '99', '100', '255', '1000', '123456789', '4294967296', '18446744073709551616',
            '0.0', '1.0', '2.0', '0.5', '1.5', '2.5', '10.0', '10.25', '3.14159', '0.001', '100.001', '7.', '0.1', '0.2', '0.3', '99.99', '1000000.5']
    nums += [str(rng.randrange(10 ** rng.randrange(1, 25))) for _ in range(40)]
    nums += [f'{rng.randrange(10 ** rng.randrange(1, 18))}.{rng.randrange(10 ** rng.randrange(1, 18))}' for _ in range(40)]
    nums += [f'{rng.randrange(3)}.{"0" * rng.randrange(0, 30)}{rng.randrange(10 ** 6)}' for _ in range(20)]
    for n in nums:
        ts.append(f'(assert (< {"r" if "." in n else "i"} {n}))')
    for _ in range(60):
        a, b = rng.randrange(10 ** rng.randrange(1, 22)), rng.randrange(10 ** rng.randrange(1, 22))
        ts.append(f'(assert (< r (/ {a} {b})))')
    for a, b in ((1, 2), (2, 1), (4, 2), (0, 3), (3, 0), (1, 3), (2, 3), (10, 5), (1, 1), (5, 5), (10, 10), (7, 7)):
        ts.append(f'(assert (< r (/ {a} {b})))')
    # exact ties of the rounding to binary64 and their neighbours: integers, decimals in [1, 2), quotients of long numerals
    for _ in range(40):
        m, k = rng.randrange(2 ** 52, 2 ** 53), rng.randrange(1, 70)
        n = (2 * m + 1) * 2 ** (k - 1)
        for d in (-1, 0, 1):
            ts.append(f'(assert (< i {n + d}))')
        f = (2 * m + 1) * 5 ** 53
        for d in (-1, 0, 1):
            digs = str(f + d).rjust(54, '0')
            ts.append(f'(assert (< r {digs[:-53]}.{digs[-53:]}))')
        a, b = rng.randrange(10 ** rng.randrange(15, 40)), rng.randrange(1, 10 ** rng.randrange(15, 40))
        ts.append(f'(assert (< r (/ {a} {b})))')
        ts.append(f'(assert (< r (/ {a * b} {b})))')
    out.append(decl + ''.join(ts))
    # n-ary chains
    ts = []
    for rel in ('<', '<=', '=', 'distinct', '>', '>='):
        for args in ('i j', 'i j k', 'i j k i', '1 2 3 4 5', 'i (+ j 1) (* 2 k)', 'r 1.5 2.5', 'i i i'):
            ts.append(f'(assert ({rel} {args}))')
    ts.append('(assert (= (< i j k) (<= k j i) (= i j k)))(assert (= x y x))(assert (distinct s t s))')
    out.append(decl + ''.join(ts))
    # strings and sequences
    ts = ['(declare-const sq (Seq Int))', '(assert (= i (seq.nth (seq.unit j) 0)))', '(assert (= i (seq.nth (seq.unit (+ j 1)) 1)))',
          '(assert (= i (seq.nth sq 0)))', '(assert (= i (seq.nth (seq.++ (seq.unit j) sq) 0)))', '(assert (= i (seq.nth (seq.unit (seq.nth (seq.unit k) 0)) 0)))',
          '(assert (= i (str.indexof s "a" 0)))', '(assert (= i (str.indexof s t i)))', '(assert (= (- 1) (str.indexof "abc" "b" 0)))',
          '(assert (< (str.indexof (str.replace_all s "a" "b") t 0) 3))', '(assert (= s (str.replace_all s "a" "b")))', '(assert (= s (str.replace_all t t t)))',
          '(assert (= s (str.replace_all (str.replace_all s "a" "b") "b" "")))', '(assert (= s (str.replace s "a" "b")))']
    out.append(decl + ''.join(ts))
    return out


def run(ctx, impl, model, rng, texts, classes=None):
    from ddsmt import mutators_bv, mutators_arithmetic, mutators_strings
    smtlib, nodes = impl.smtlib, impl.nodes
    objs = {}
    for mod in (mutators_bv, mutators_arithmetic, mutators_strings):
        for c in CODES:
            if hasattr(mod, c):
                objs[c] = getattr(mod, c)()
    assert set(objs) == set(CODES)
    names = [c for c in CODES if classes is None or c in classes]
    calls, meta = [], []
    corpus = [(None, t) for t in texts] + [(None, t) for t in targeted(rng)]
    for c in names:
        corpus += [(c, f'(assert {m})') for m in MALFORMED[c]]
    for origin, text in corpus:
        try:
            exprs = impl.parse(text)
            smtlib.collect_information(exprs)
        except Exception:  # noqa
            ctx.count('constant-rewrite texts the reader or collect_information refuse')
            continue
        for node in nodes.dfs(exprs):
            sh = w_shape(impl.to_shape(node))
            for c in names:
                m = objs[c]
                try:
                    with common.time_limit(5):
                        got = [impl.to_shape(sp.substs[node.id]) for sp in (m.mutations(node) if m.filter(node) else [])]
                    got = [1, w_shapes(got)]
                except Exception:  # noqa
                    got = [0]
                calls.append((CODES[c], [sh]))
                meta.append((c, str(node)[:200], got))
    res = model.batch(calls)
    for (c, node, want), got in zip(meta, res):
        ctx.count('constant-rewrite model comparisons')
        if want == [0]:
            ctx.count('constant-rewrite comparisons where the implementation raises')
            ctx.count(f'{c}: raises')
        elif want[1]:
            ctx.count('constant-rewrite comparisons with a proposal')
            ctx.count(f'{c}: proposals')
        if got != want:
            ctx.disagree(f'mutations of {c} vs Model/ConstRw.v', input=node, impl=repr(want)[:400], model=repr(got)[:400])
    return len(calls)
