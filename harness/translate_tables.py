"""TIE-T: extract the mutator registries, theory table, pass lists and operator
tables from the source (Python ast) into coq/theories/Gen/Tables.v.  Fails
closed: unknown shapes raise TranslateError; code whose *behaviour* the
hand-written model mirrors is pinned by a whitespace-insensitive fingerprint."""
import ast
import hashlib
import os

import common


class TranslateError(Exception):
    pass


def q(s):
    if '"' in s or any(ord(c) > 126 or ord(c) < 32 for c in s):
        raise TranslateError(f'unsupported literal {s!r}')
    return f'(lit "{s}")'


def qlist(l):
    return '[' + '; '.join(q(x) for x in l) + ']'


def norm_src(node):
    return ''.join(ast.unparse(node).split())


def fp(node):
    return hashlib.sha256(norm_src(node).encode()).hexdigest()[:16]


def funcs(tree):
    return {n.name: n for n in tree.body if isinstance(n, ast.FunctionDef)}


def parse(repo, name):
    return ast.parse(open(os.path.join(repo, 'ddsmt', name)).read())


def dict_literal(fn):
    """get_mutators(): single 'return {...}' of str -> str."""
    rets = [s for s in fn.body if isinstance(s, ast.Return)]
    if len(rets) != 1 or not isinstance(rets[0].value, ast.Dict):
        raise TranslateError(f'{fn.name}: expected one return of a dict literal')
    d = rets[0].value
    res = []
    for k, v in zip(d.keys, d.values):
        if not (isinstance(k, ast.Constant) and isinstance(v, ast.Constant) and isinstance(k.value, str) and isinstance(v.value, str)):
            raise TranslateError(f'{fn.name}: non-literal entry')
        res.append((k.value, v.value))
    if len(set(k for k, _ in res)) != len(res):
        raise TranslateError(f'{fn.name}: duplicate key in dict literal')
    return res


def str_list(node, what):
    if not isinstance(node, ast.List) or not all(isinstance(e, ast.Constant) and isinstance(e.value, str) for e in node.elts):
        raise TranslateError(f'{what}: expected a list of string literals')
    return [e.value for e in node.elts]


# fingerprints of the functions whose behaviour Model/Options.v and Model/Smtlib.v mirror (pinned commit + fixes up to F74:
# auto_detect_theories cleans the commands first (F67, mirrored in Model/Relevance.v), get_sort has the comment-operand guard and
# caches structurally for compound terms only (F64, F69, mirrored in Model/Smtlib.v))
PINNED_SMTLIB = {'smtlib._get_sort_aux': 'e6db3208d14a4946', 'smtlib.get_bv_width': 'f2dda2ce4c4d421a', 'smtlib.get_sort': '6ca3f57fc9d56574',
                 'smtlib.is_bv_const': '8a00a2fac137537d', 'smtlib.is_bv_sort': '68212cf1d995eeaf', 'smtlib.is_array_sort': 'b4d5d55dc93ee237',
                 'smtlib.is_indexed_operator': 'f10d3441f8557a57', 'smtlib.is_indexed_operator_app': '746602fe9b6a609c',
                 'smtlib.get_indices': 'b8e4f8b45789c5d0', 'smtlib.is_bool_const': '5283f087397e7f55', 'smtlib.is_int_const': '754d5b9456afec21',
                 'smtlib.is_real_const': 'b6ed0a1e06e81742', 'smtlib.is_index': '7f05ddf238eddf70', 'smtlib.get_bv_constant_value': '0c86b6d12ebe8444'}
PINNED = {'get_mutators': 'e8934e84f8027b04', 'get_initialized_mutator': 'e3385605b34f17c5', 'toggle_theory': '35fe355af5bcf8f3',
          'toggle_all_theories': 'd4d70cac1d00388b', 'auto_detect_theories': 'fe1a4e59d0cd9b6a',
          'collect_mutator_options': 'e78221e38d802816', 'add_mutator_group': '6ef93d2603718d14',
          'TheoryToggleAction': '01233a6d56783e44', 'DisableAllTheoriesAction': '26d182b9391a179c', 'ToggleAction': 'bb5a3907f8c9b0dd'}


def translate(repo=None):
    repo = repo or common.REPO
    mt = parse(repo, 'mutators.py')
    mf = funcs(mt)
    gam = mf['get_all_mutators']
    ret = [s for s in gam.body if isinstance(s, ast.Return)][0].value
    if not isinstance(ret, ast.Dict):
        raise TranslateError('get_all_mutators: expected dict literal')
    theories = []
    for k, v in zip(ret.keys, ret.values):
        if not (isinstance(k, ast.Constant) and isinstance(v, ast.Tuple) and len(v.elts) == 2 and isinstance(v.elts[0], ast.Name)
                and norm_src(v.elts[1]) == f'{v.elts[0].id}.get_mutators()'):
            raise TranslateError('get_all_mutators: entry shape')
        theories.append((k.value, v.elts[0].id))
    tables = []
    classes = []
    for tname, mod in theories:
        tree = parse(repo, mod + '.py')
        f = funcs(tree)
        if 'get_mutators' not in f:
            raise TranslateError(f'{mod}: no get_mutators')
        reg = dict_literal(f['get_mutators'])
        has_rel = 'is_relevant' in f
        cls = []
        for n in tree.body:
            if isinstance(n, ast.ClassDef):
                meths = {m.name for m in n.body if isinstance(m, ast.FunctionDef)}
                cls.append((n.name, 'filter' in meths, 'mutations' in meths, 'global_mutations' in meths))
        tables.append((tname, has_rel, reg))
        classes.append((tname, cls))
    # behaviour pins
    pins = {name: fp(mf[name]) for name in ('get_mutators', 'get_initialized_mutator', 'toggle_theory', 'toggle_all_theories',
                                            'auto_detect_theories', 'collect_mutator_options', 'add_mutator_group')}
    for c in mt.body:
        if isinstance(c, ast.ClassDef):
            pins[c.name] = fp(c)
    ot = parse(repo, 'options.py')
    for c in ot.body:
        if isinstance(c, ast.ClassDef) and c.name == 'ToggleAction':
            pins['ToggleAction'] = fp(c)
    changed = sorted(k for k in PINNED if pins.get(k) != PINNED[k])
    if changed:
        raise TranslateError('option/registry handling code differs from the code Model/Options.v mirrors: ' + ', '.join(changed))
    # hierarchical passes
    sh = parse(repo, 'strategy_hierarchical.py')
    gp = funcs(sh)['get_passes']
    prelude, late = None, None
    for s in gp.body:
        if isinstance(s, ast.Assign) and isinstance(s.targets[0], ast.Name):
            if s.targets[0].id == 'prelude':
                elts = s.value.elts
                if len(elts) != 3:
                    raise TranslateError('prelude: expected three passes')
                first = norm_src(elts[0])
                if first != "(mutators.get_initialized_mutator('BinaryReduction',{'ident':'assert'}),{'max_depth':1})":
                    raise TranslateError('prelude[0] shape: ' + first)
                p = []
                for e in elts[1:]:
                    if not (isinstance(e, ast.Call) and norm_src(e.func) == 'mutators.get_mutators' and len(e.args) == 1):
                        raise TranslateError('prelude entry shape')
                    p.append(str_list(e.args[0], 'prelude'))
                prelude = p
            if s.targets[0].id == 'late':
                late = str_list(s.value, 'late')
    if prelude is None or late is None:
        raise TranslateError('get_passes: prelude/late not found')
    tail = norm_src(ast.Module(body=[s for s in gp.body if not (isinstance(s, ast.Assign) and isinstance(s.targets[0], ast.Name) and s.targets[0].id in ('prelude', 'late'))
                                     and not (isinstance(s, ast.Expr) and isinstance(s.value, ast.Constant))], type_ignores=[]))
    expect_tail = ("main=[]for_,theoryinmutators.get_all_mutators().items():formnameintheory[1]:ifmnamenotinlate:main.append(mname)"
                   "returnprelude+[mutators.get_mutators(main),mutators.get_mutators(late+main)]")
    if tail != expect_tail:
        raise TranslateError('get_passes: unexpected structure: ' + tail)
    # ddmin passes
    sd = parse(repo, 'strategy_ddmin.py')
    dp = funcs(sd)['ddmin_passes']
    lists = {}
    for s in dp.body:
        if isinstance(s, ast.Assign) and isinstance(s.targets[0], ast.Name) and isinstance(s.value, ast.List):
            lists[s.targets[0].id] = str_list(s.value, s.targets[0].id)
    for k in ('stage1_names', 'stage2_names', 'exclude'):
        if k not in lists:
            raise TranslateError(f'ddmin_passes: {k} not found')
    rest = norm_src(ast.Module(body=[s for s in dp.body if not (isinstance(s, ast.Assign) and isinstance(s.value, ast.List))
                                     and not (isinstance(s, ast.Expr) and isinstance(s.value, ast.Constant))], type_ignores=[]))
    expect_rest = ("stage1=mutators.get_initialized_mutator('EraseNode',{'ident':'assert'})stage1.extend(mutators.get_mutators(stage1_names))"
                   "exclude.extend(stage1_names)exclude.extend(stage2_names)"
                   "fortheoryinmutators.get_all_mutators().values():stage2_names.extend((xforxintheory[1]ifxnotinexclude))"
                   "return[stage1,mutators.get_mutators(stage2_names)]")
    if rest != expect_rest:
        raise TranslateError('ddmin_passes: unexpected structure: ' + rest)
    # operator lists of the sort oracle (smtlib._get_sort_aux, smtlib.get_bv_width)
    sm = parse(repo, 'smtlib.py')
    sf = funcs(sm)
    oplists = {}
    for fname, names in (('_get_sort_aux', ['sort_bool_ops', 'sort_int_ops', 'sort_real_ops', 'sort_arith_ops', 'sort_fp1_ops', 'sort_fp2_ops']),
                         ('get_bv_width', ['bvw_same_ops'])):
        found = []
        for n in ast.walk(sf[fname]):
            if isinstance(n, ast.Compare) and len(n.ops) == 1 and isinstance(n.ops[0], ast.In) and isinstance(n.left, ast.Name) \
                    and n.left.id == 'ident' and isinstance(n.comparators[0], ast.List):
                found.append((n.lineno, str_list(n.comparators[0], fname)))
        found.sort()
        if len(found) != len(names):
            raise TranslateError(f'{fname}: expected {len(names)} operator lists, found {len(found)}')
        for nm, (_, l) in zip(names, found):
            oplists[nm] = l
        # pin the structure of the function with the list literals blanked out
        import copy
        f2 = copy.deepcopy(sf[fname])
        for n in ast.walk(f2):
            if isinstance(n, ast.Compare) and isinstance(n.comparators[0], ast.List) and isinstance(n.left, ast.Name) and n.left.id == 'ident':
                n.comparators[0].elts = []
        pins['smtlib.' + fname] = fp(f2)
    for nm in ('get_sort', 'is_bv_const', 'is_bv_sort', 'is_array_sort', 'is_indexed_operator', 'is_indexed_operator_app', 'get_indices',
               'is_bool_const', 'is_int_const', 'is_real_const', 'is_index', 'get_bv_constant_value'):
        pins['smtlib.' + nm] = fp(sf[nm])
    changed2 = sorted(k for k in PINNED_SMTLIB if pins.get(k) != PINNED_SMTLIB[k])
    if changed2 and PINNED_SMTLIB:
        raise TranslateError('sort-inference code differs from the code Model/Smtlib.v mirrors: ' + ', '.join(changed2))
    out = ['(* GENERATED by harness/translate_tables.py from ddsmt/mutators*.py, strategy_*.py -- do not edit. *)',
           'From DD Require Export Base.Lit.', 'Open Scope string_scope.', '',
           '(* theory name, defines is_relevant, registry (class name, option name) in get_all_mutators() order *)',
           'Definition theories : list (str * bool * list (str * str)) := [']
    out.append(';\n'.join(
        f'  ({q(t)}, {"true" if hr else "false"}, [' + '; '.join(f'({q(c)}, {q(o)})' for c, o in reg) + '])' for t, hr, reg in tables))
    out.append('].')
    out.append('')
    out.append('(* classes defined per theory module: name, has filter, has mutations, has global_mutations *)')
    out.append('Definition classes : list (str * list (str * bool * bool * bool)) := [')
    out.append(';\n'.join(
        f'  ({q(t)}, [' + '; '.join(f'({q(c)}, {str(a).lower()}, {str(b).lower()}, {str(g).lower()})' for c, a, b, g in cl) + '])' for t, cl in classes))
    out.append('].')
    out.append('')
    out.append(f'Definition hier_prelude1 : list str := {qlist(prelude[0])}.')
    out.append(f'Definition hier_prelude2 : list str := {qlist(prelude[1])}.')
    out.append(f'Definition hier_late : list str := {qlist(late)}.')
    out.append(f'Definition ddmin_stage1 : list str := {qlist(lists["stage1_names"])}.')
    out.append(f'Definition ddmin_stage2 : list str := {qlist(lists["stage2_names"])}.')
    out.append(f'Definition ddmin_exclude : list str := {qlist(lists["exclude"])}.')
    for nm, l in oplists.items():
        out.append(f'Definition {nm} : list str := {qlist(l)}.')
    out.append('')
    return '\n'.join(out) + '\n', dict(pins=pins, theories=[(t, hr, len(r)) for t, hr, r in tables])


def main():
    out, info = translate()
    p = os.path.join(common.THEORIES, 'Gen', 'Tables.v')
    print('Tables.v', 'updated' if common.write_if_changed(p, out) else 'unchanged', info)


if __name__ == '__main__':
    main()
