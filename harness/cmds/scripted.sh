#!/bin/sh
# Scripted command under test: usage  scripted.sh <which> [extra args...] <file>
# The file holds six lines: code out err (main) and code out err (cross check);
# "-" stands for the empty string, code T means: sleep (time out).
# Every invocation appends its argument vector to $VERIF_ARGLOG.
which="$1"
for last; do :; done
[ -n "$VERIF_ARGLOG" ] && printf '%s\n' "$*" >> "$VERIF_ARGLOG"
{ read -r c1; read -r o1; read -r e1; read -r c2; read -r o2; read -r e2; } < "$last"
if [ "$which" = cc ]; then c1="$c2"; o1="$o2"; e1="$e2"; fi
[ "$o1" = "-" ] && o1=""
[ "$e1" = "-" ] && e1=""
if [ "$c1" = T ]; then exec sleep 30; fi
printf '%s' "$o1"
printf '%s' "$e1" >&2
exit "$c1"
