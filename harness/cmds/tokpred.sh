#!/bin/sh
# Deterministic command whose behaviour depends on the token sequence only.
# usage: tokpred.sh <mode> <tok1> [tok2 ...] <file>
#   mode all    : "fails" (exit 1, prints bug) iff every given token occurs in the file
#   mode hashN  : as all, and additionally the token digest mod N must be non-zero (non-monotone)
#   mode eol    : exit status 1 and the word bug in any case; the line ends in LF iff every given token occurs, else in CR LF
#                 (stderr: a progress line ended by CR resp. LF) -- candidates differ from the golden run in line terminators only
#   mode bytes  : exit status 1 in any case; prints the byte ff iff every given token occurs, else the four characters \\xff
#                 (candidates differ from the golden run in an undecodable byte only)
#   mode sup    : exit status 0 in any case; prints sat iff every given token occurs, else unsat (which CONTAINS the golden text sat)
#   mode set    : the words are token digests (12 hex digits, as logged): "fails" iff the token sequence of the file is one of them
#                 (an adversarial command that accepts exactly the listed inputs)
#   mode le     : tokpred.sh le <N> <tok> <file>: "fails" iff <tok> occurs at most N times
#   mode sync   : as all, and additionally the literal tokens (numerals, decimals, #b/#x, strings) must be at least two and all equal
#                 (occurrences that have to be kept in sync: only a step that changes all of them at once is accepted)
# Logs "<digest> <verdict>" to $VERIF_CMDLOG.  Optional delay: $VERIF_CMD_DELAY (ms, scaled by the digest).
mode="$1"; shift
for last; do :; done
toks=$(sed 's/[()]/ & /g' "$last" | tr -s ' \t\r\n' '\n' | sed '/^$/d')
digest=$(printf '%s\n' "$toks" | md5sum | cut -c1-12)
ok=1
setargs=""
if [ "$mode" = set ]; then while [ $# -gt 1 ]; do setargs="$setargs $1"; shift; done; fi
if [ "$mode" = le ]; then lemax="$1"; letok="$2"; shift; shift; fi
while [ $# -gt 1 ]; do
  printf '%s\n' "$toks" | grep -qxF -e "$1" || ok=0
  shift
done
case "$mode" in
  set) # the given words are token digests: "fails" iff the file is one of exactly these token sequences
       ok=0; for d in $setargs; do [ "$d" = "$digest" ] && ok=1; done ;;
  le) # "fails" iff the token occurs at most N times (a budget: only so many steps that add an occurrence are accepted)
      cnt=$(printf '%s\n' "$toks" | grep -cxF -e "$letok"); [ "$cnt" -le "$lemax" ] || ok=0 ;;
  sync) vals=$(printf '%s\n' "$toks" | grep -E '^([0-9]|#[bx]|")')
        cnt=$(printf '%s\n' "$vals" | grep -c .); dist=$(printf '%s\n' "$vals" | sort -u | grep -c .)
        { [ "$cnt" -ge 2 ] && [ "$dist" -eq 1 ]; } || ok=0 ;;
  hash*) n=${mode#hash}; v=$(printf '%d' "0x$(printf '%s' "$digest" | cut -c1-6)"); [ $((v % n)) -eq 0 ] && ok=0 ;;
esac
if [ -n "$VERIF_CMD_DELAY" ]; then
  v=$(printf '%d' "0x$(printf '%s' "$digest" | cut -c7-9)")
  ms=$((v % VERIF_CMD_DELAY))
  sleep "$(printf '0.%03d' "$ms")"
fi
[ -n "$VERIF_CMDLOG" ] && printf '%s %s\n' "$digest" "$ok" >> "$VERIF_CMDLOG"
if [ "$mode" = sup ]; then
  if [ "$ok" = 1 ]; then echo sat; else echo unsat; echo 'warning: x' >&2; fi
  exit 0
fi
if [ "$mode" = bytes ]; then
  if [ "$ok" = 1 ]; then printf '\377 bug\n'; else printf '\\xff bug\n'; fi
  exit 1
fi
if [ "$mode" = eol ]; then
  if [ "$ok" = 1 ]; then printf 'bug\n'; printf 'working\n' >&2; else printf 'bug\r\n'; printf 'working\r' >&2; fi
  exit 1
fi
if [ "$ok" = 1 ]; then echo bug; exit 1; fi
echo ok; exit 0
