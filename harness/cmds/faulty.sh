#!/bin/sh
# Command under test with faults that depend on the candidate.
# usage: faulty.sh <bugmode> <file>      bugmode: exit1 | err1 (as exit1, with a line on stderr) | kill9 | hang | alloc
#  - token "keep" absent                 -> prints ok, exit 0
#  - h1 present and h2 absent            -> sleeps forever
#  - s1 present and s2 absent            -> spins forever
#  - k1 present and k2 absent            -> kills itself with SIGKILL
#  - a1 present and a2 absent            -> allocates without bound
#  - otherwise shows the "bug": exit1: prints bug, exit 1; kill9: SIGKILL itself; hang: sleeps forever;
#    alloc: reserves 1.5 GB of address space in 50 MB steps (dies at once under a memory limit; without one it then sleeps 100 s, exit 0)
bugmode="$1"
for last; do :; done
toks=$(sed 's/[()]/ & /g' "$last" | tr -s ' \t\r\n' '\n' | sed '/^$/d')
has() { printf '%s\n' "$toks" | grep -qxF -e "$1"; }
kind=none
if has keep; then
  if has h1 && ! has h2; then kind=hang; elif has s1 && ! has s2; then kind=spin; elif has k1 && ! has k2; then kind=kill; elif has a1 && ! has a2; then kind=alloc; fi
fi
[ -n "$VERIF_CMDLOG" ] && printf '%s %s\n' "$(printf '%s\n' "$toks" | md5sum | cut -c1-12)" "$kind" >> "$VERIF_CMDLOG"
if ! has keep; then echo ok; exit 0; fi
if has h1 && ! has h2; then exec sleep 1000; fi
if has s1 && ! has s2; then while :; do :; done; fi
if has k1 && ! has k2; then kill -9 $$; fi
if has a1 && ! has a2; then exec /venv/bin/python -c "
x = []
while True:
    x.append(bytearray(10**7))
"; fi
case "$bugmode" in
  kill9) kill -9 $$ ;;
  hang) exec sleep 1000 ;;
  alloc) exec /venv/bin/python -c "
import mmap, time
keep = [mmap.mmap(-1, 50 * 2**20) for _ in range(30)]
time.sleep(100)
" ;;
  err1) echo bug; echo 'error: bug' >&2; exit 1 ;;
  *) echo bug; exit 1 ;;
esac
