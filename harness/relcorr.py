"""TIE for Model/Relevance.v (dispatch 150/151): the relevance test of mutators.auto_detect_theories.

For every text and every theory module of mutators.get_all_mutators() that defines is_relevant, the value

    any(theory.is_relevant(n) for n in nodes.dfs(exprs, max_depth=1))

on exprs = [e for e in map(smtlib.without_comments, exprs) if e is not None] (exactly what auto_detect_theories computes
before it disables a group, after the repair "theory detection sees through comments and quoted sort names") is compared
with `relevant name script` of the model (150), and the same on the script as it is with `relevant_raw` (152), for the
whole script and for every top-level node as a script of its own (whole generated scripts are relevant for most
theories; single commands are not).  smtlib.without_comments itself is compared with the model's function on every
top-level node (153).  With an implementation that has no smtlib.without_comments (the tree before the repair) only the
raw comparison is made.  hasattr(theory, 'is_relevant') is compared with has_is_relevant
(151) for all eight groups, and for the groups without is_relevant the model must answer true (never disabled).
Besides the given texts: sorts of every theory in every sort position of Spec/TheorySpec.v, an odd / malformed corpus
and token-level fuzzing of both.

`tamper` changes the IMPLEMENTATION side of the comparison on purpose (negative control): the harness must then report
disagreements.  Run as a script: python relcorr.py [nscripts] -- generated scripts + corpus + negative controls."""
import re

import common
from common import w_shapes, w_str

THEORY_SORTS = {
    'arithmetic': ['Int', 'Real'],
    'bv': ['(_ BitVec 8)', '(_ BitVec 1)'],
    'fp': ['Float16', 'Float32', 'Float64', 'Float128', '(_ FloatingPoint 8 24)', 'RoundingMode'],
    'strings': ['String', 'RegLan', '(Seq Int)', '(Seq Bool)'],
    'none': ['Bool', 'U', '(Array Bool Bool)', '(Set Bool)'],
}

# {S} is replaced by a sort
POSITIONS = [
    '(declare-const x {S})', '(declare-var x {S})', '(declare-fun f ({S}) Bool)', '(declare-fun f (Bool {S} Bool) Bool)', '(declare-fun f (Bool) {S})',
    '(declare-fun f () {S})', '(define-fun f ((a {S})) Bool true)', '(define-fun f ((a Bool) (b {S})) Bool true)', '(define-fun f ((a Bool)) {S} z)',
    '(define-fun-rec f ((a {S})) Bool true)', '(define-fun-rec f () {S} z)', '(define-funs-rec ((f ((a {S})) Bool) (g () Bool)) (true true))',
    '(define-funs-rec ((f ((a Bool)) Bool) (g () {S})) (true z))', '(define-funs-rec ((f () Bool)) ((forall ((q {S})) true)))', '(define-const c {S} z)',
    '(define-const c Bool (exists ((q {S})) true))', '(define-sort MyS () {S})', '(define-sort MyS (X) (Array X {S}))', '(assert (forall ((x {S})) (= x x)))',
    '(assert (exists ((y Bool) (x {S})) (= x x)))', '(assert (and p (or q (not (forall ((x {S})) (= x x))))))', '(assert (let ((a true)) (forall ((x {S})) a)))',
    '(assert (! (forall ((x {S})) true) :named n1))', '(define-fun f () Bool (forall ((x {S})) true))', '(define-fun-rec f ((a Bool)) Bool (and a (exists ((x {S})) a)))',
    '(declare-datatype D ((c (s {S}))))', '(declare-datatype D ((nil) (cons (hd {S}) (tl D))))', '(declare-datatype D (par (X) ((c (s {S}) (t X)))))',
    '(declare-datatypes ((D 0)) (((c (s {S})))))', '(declare-datatypes ((D 0) (E 0)) (((d)) ((e (s {S})))))', '(declare-datatypes ((D 1)) ((par (X) ((c (s {S}))))))',
    '(declare-codatatype D ((c (s {S}))))', '(declare-codatatypes ((D 0)) (((c (s {S})))))',
    '(declare-const x (Array {S} Bool))', '(declare-const x (Array Bool {S}))', '(declare-const x (Array Bool (Array {S} Bool)))', '(declare-const x (Seq {S}))',
    '(declare-const x (Set {S}))', '(declare-const x (Tuple Bool {S}))', '(declare-fun f ((Array Bool {S})) Bool)',
    # not a sort position
    '(assert (= {S} {S}))', '(assert ((as const (Array Bool {S})) true))', '(set-info :source {S})', '(set-option :x {S})', '(echo {S})', '(check-sat-assuming ({S}))',
    '(get-value ({S}))', '(push {S})', '{S}', '({S})', '(({S}))', '(() {S})', '((x) {S})', '(declare-sort {S} 0)', '(declare-const {S} Bool)', '(set-logic {S})',
    '(assert (let ((x {S})) x))', '(assert (match x (({S} true))))', '(; c\n declare-const x {S})', '(declare-const x ; {S}\n Bool)', '; {S}\n', '"{S}"', '|{S}|',
    '(declare-const x |{S}|)', '(declare-const x "{S}")',
]

WIDE = [
    '(declare-const x (_ BitVec ; width\n 8))', '(; c\n declare-datatypes ((D 0)) (((c))))', '(declare-const s ( ; c\n Seq Bool))', '(declare-const x |Int|)(assert (> x 0))',
    '(declare-const x (_ |BitVec| 8))', '(declare-const x (|_| BitVec 8))', '(declare-const x (|_| |BitVec| |8|))', '(declare-const s |String|)', '(declare-const r |RoundingMode|)',
    '(declare-const r |Float32|)', '(declare-const r (_ |FloatingPoint| 8 24))', '(declare-const r (|Seq| Bool))', '(|declare-datatype| D ((c)))', '(|declare-const| x Int)',
    '(x ||)', '||', '(||)', '(|| Int)', '(x |;|)', '(x |;Int|)', '(x |; Int|)', '(|;| Int)', '(x | |)', '(x |Int |)', '(x | Int|)', '(x ||Int||)', '(x |||)', '(x |\n|)', '(x |Int|Int|)',
    '(x "Int")', '(x "|Int|")', '(x |"Int"|)', '(x ; |Int|\n)', '(x |a;b| Int)', '(x |Int| ; c\n)', '; |Int|\n', ';\n', ';', '; c\n; d\n', '(;\n)', '(x (; c\n))', '(x (; c\n) Int)',
    '((; c\n) Int)', '(( ; c\n x) Int)', '(; c\n (x) Int)', '(; c\n ; d\n Int)', '(; c\n ; d\n Int Int)', '(; c\n)(; d\n)', '(_ BitVec ; c\n)', '(_ BitVec 8 ; c\n)', '(_ ; c\n BitVec 8)',
    '(_ BitVec 8 ; c\n 9)', '(_ BitVec ; c\n ; d\n 8)', '(_ FloatingPoint 8 ; c\n)', '(_ FloatingPoint 8 ; c\n 24)', '(_ FloatingPoint 8 24 ; c\n)', '(x (_ FloatingPoint ; c\n 8 24 1))',
    '(x (Seq ; c\n))', '(x (; c\n Seq))', '(; c\n Seq)', '(x ; c\n Float32)', '(x |Float32|)', '(x |Float|32)', '(x |Float128|)', '(x |RegLan|)', '(x |Real|)', '(x |Seq|)', '(|Seq|)',
    '(|Seq| ; c\n)', '(|_| |BitVec| ; c\n |8|)', '(|x| (|_| |BitVec| |8|))', '((|_| |BitVec| |8|))', '|Int|', '(|Int|)', '(|| |Int|)', '(|;c| |Int|)',
]

ODD = WIDE + [
    '', '()', '(())', '(() ())', 'Int', 'Real', 'String', 'RegLan', 'RoundingMode', 'Float32', 'Seq', '_', 'BitVec', '(_)', '(_ BitVec)', '(_ BitVec 8)', '(_ BitVec 8 9)',
    '(_ BitVec x)', '(_ BitVec (8))', '(_ BitVec ())', '(_ (BitVec) 8)', '((_) BitVec 8)', '(_ bitvec 8)', '(_ BitVector 8)', '(BitVec 8)', '(BitVec _ 8)', '(x BitVec 8)',
    '(_ BitVec 8) (_ BitVec 8 9)', '((_ BitVec 8))', '(x (_ BitVec))', '(x (_ BitVec 8 9))', '(x (_ BitVec 8))', '(x ((_ BitVec 8)))', '(x (y (z (_ BitVec w))))',
    '(_ bv5 8)', '(x (_ bv5 8))', '(x #b0101)', '(x #xff)', '(assert (= (bvadd a b) #b01))', '(assert (= ((_ extract 3 0) a) b))', '(assert (= ((_ int2bv 4) 3) c))',
    '(_ FloatingPoint)', '(_ FloatingPoint 8)', '(_ FloatingPoint 8 24)', '(_ FloatingPoint 8 24 1)', '(_ FloatingPoint x y)', '(_ FloatingPoint (8) (24))',
    '(x (_ FloatingPoint 8))', '(x (_ FloatingPoint 8 24))', '(x (_ FloatingPoint 8 24 1))', '(FloatingPoint 8 24)', '(_ floatingpoint 8 24)', '(x (_ +oo 8 24))',
    '(x (_ to_fp 8 24))', '(x ((_ to_fp 8 24) RNE 1.0))', '(x (fp #b0 #b00 #b000))', '(x RNE)', '(x roundNearestTiesToEven)',
    '(x Float)', '(x Float1)', '(x Float16)', '(x Float32)', '(x Float64)', '(x Float128)', '(x Float256)', '(x Float8)', '(x Float 32)', '(x Float32x)', '(x float32)',
    '(x FLOAT32)', '(x xFloat32)', '(x Float032)', '(x Float3)', '(x Float12)', '(x Float128 )', '(x (Float32))', '(x (Float32 y))', '(Float32)', '(Float32 x)',
    '(x RoundingMode)', '(x (RoundingMode))', '(RoundingMode)', '(RoundingMode x)', '(x roundingmode)', '(x Roundingmode)', '(x RoundingModes)',
    '(x Int)', '(x (Int))', '(Int)', '(Int x)', '(x int)', '(x INT)', '(x Integer)', '(x Int1)', '(x Real)', '(x (Real))', '(Real)', '(x real)', '(x Reals)', '(x 1)', '(x 1.5)',
    '(assert (> 1 0))', '(assert (= (+ a 1) 2))', '(assert (= (to_real 1) 1.0))', '(assert (is_int 1.0))', '(set-logic QF_LIA)', '(set-logic QF_BV)', '(set-logic QF_S)',
    '(x String)', '(x (String))', '(String)', '(x string)', '(x Strings)', '(x RegLan)', '(x (RegLan))', '(RegLan)', '(x Reglan)', '(x RegEx)', '(x "abc")', '(x "String")',
    '(assert (str.contains a "b"))', '(assert (str.in_re a (re.* re.allchar)))',
    '(Seq)', '(Seq Int)', '(Seq x y)', '(x (Seq))', '(x (Seq Bool))', '(x (Seq a b c))', '(x Seq)', '(x (seq Bool))', '(x ((Seq) Bool))', '((Seq))', '((Seq Bool))', '(x (Seqs Bool))',
    '(x (seq.unit 1))', '(x (as seq.empty (Seq Bool)))',
    '(declare-datatype)', '(declare-datatypes)', '(declare-codatatype)', '(declare-codatatypes)', 'declare-datatype', '((declare-datatype))', '((declare-datatype) D ((c)))',
    '(x declare-datatype)', '(x (declare-datatype D ((c))))', '(declare-datatype D ((c)))', '(declare-datatypes ((D 0)) (((c))))', '(declare-codatatype D ((c)))',
    '(declare-codatatypes ((D 0)) (((c))))', '(Declare-datatype D ((c)))', '(declare-datatypeS D ((c)))', '(declare-datatype-x D ((c)))', '(declare-data-type D ((c)))',
    '(define-datatype D ((c)))', '(declare-datatype ; c\n D ((c)))', '(; c\n declare-datatype D ((c)))', '(|declare-datatype| D ((c)))', '("declare-datatype" D ((c)))',
    '(declare-sort D 0)', '(declare-const d D)', '(assert ((_ is c) d))', '(assert (= d (c)))',
    '; only a comment', '; Int\n(x)', '(x) ; Int', '(x ; Int\n)', '(; Int\n)', '(; Int\n Int)', '(; c\n (_ BitVec 8))', '(; c\n)', '(;\n;\n)', '"Int"', '|Int|', '(x |Int|)', '(x "Int")',
    '(x | Int|)', '(x |Int |)', '(x |_| BitVec 8)', '(x (|_| BitVec 8))', '(x (_ |BitVec| 8))', '(x (|Seq| Bool))', '(x |Real|)', '(x |String|)', '(x |RoundingMode|)', '(x |Float32|)',
    '(x\tInt)', '(x\nInt\n)', '(x\rInt)', '(x Int', '(x (Int', 'x Int', 'x (y Int)', '(a) Int (b)', '(a) (b Int) (c)', '(a) ((b Int)) (c)', '(a) (() Int) (c)', '("s" Int)', '(|q| Int)',
    '(1 Int)', '(#b0 Int)', '(:kw Int)', '(! Int)', '(_ Int)', '(_ Int Real)', '(_ Int Real String)',
    '(declare-const x Bool)(declare-fun f (Bool Bool) Bool)(define-fun g ((a Bool)) Bool (not a))(assert (forall ((b Bool)) (=> b (f b (g b)))))(check-sat)',
    '(set-logic ALL)(declare-sort U 0)(declare-const u U)(declare-fun p (U) Bool)(assert (p u))(check-sat)(exit)',
    '(set-info :smt-lib-version 2.6)(set-option :produce-models true)(check-sat)(get-model)(exit)',
]


def corpus(rng, nfuzz=600):
    out = list(ODD)
    for group, sorts in THEORY_SORTS.items():
        for s in sorts:
            for p in POSITIONS:
                out.append(p.replace('{S}', s))
    # comments and quoted spellings inside the sort, in every position
    tok = re.compile(r'\(|\)|[^\s()]+')
    for group, sorts in THEORY_SORTS.items():
        for srt in sorts:
            toks = tok.findall(srt)
            vs = [' '.join(t if t in '()' else f'|{t}|' for t in toks)]
            for i in range(len(toks) + 1):
                vs.append(' '.join(toks[:i] + ['; c\n'] + toks[i:]))
            for i, t in enumerate(toks):
                if t not in '()':
                    vs.append(' '.join(toks[:i] + [f'|{t}|'] + toks[i + 1:]))
            for v in vs:
                for p in POSITIONS:
                    if rng.random() < 0.35:
                        out.append(p.replace('{S}', v))
    for p in POSITIONS[:40]:
        # comments between the tokens of the command itself
        toks = tok.findall(p.replace('{S}', rng.choice(['Int', '(_ BitVec 8)', 'Float32', '(Seq Bool)', 'Bool'])))
        for _k in range(3):
            i = rng.randrange(len(toks) + 1)
            out.append(' '.join(toks[:i] + ['; Int\n'] + toks[i:]))
        out.append(' '.join(t if t in '()' else f'|{t}|' for t in toks))
    # every position with a second, unrelated command before / after
    for p in POSITIONS[:40]:
        s = rng.choice([x for v in THEORY_SORTS.values() for x in v])
        out.append('(declare-const p Bool)' + p.replace('{S}', s) + '(check-sat)')
    atoms = ['Int', 'Real', 'String', 'RegLan', 'RoundingMode', 'Float16', 'Float32', 'Float64', 'Float128', 'Float', 'Float3', 'Seq', '_', 'BitVec', 'FloatingPoint', '8', '24',
             'x', '()', '(x)', '(Seq)', '(_ BitVec 8)', '(_ FloatingPoint 8 24)', 'declare-datatype', 'declare-datatypes', 'declare-codatatype', 'declare-codatatypes',
             'declare-const', 'Bool', '; c\n', '"s"', '|q|', '|Int|', '|BitVec|', '|_|', '||', '|Seq|', '|Float32|', '; Int\n']
    pool = [t for t in out if t and len(t) < 400]
    for _ in range(nfuzz):
        toks = re.findall(r'\(|\)|"[^"]*"|\|[^|]*\||;[^\n]*\n|[^\s()"|;]+', rng.choice(pool))
        for _k in range(rng.randrange(1, 4)):
            if not toks:
                break
            i = rng.randrange(len(toks))
            op = rng.randrange(7)
            if op == 0:
                del toks[i]
            elif op == 1:
                toks.insert(i, toks[i])
            elif op == 2:
                j = rng.randrange(len(toks))
                toks[i], toks[j] = toks[j], toks[i]
            elif op == 3:
                toks[i] = rng.choice(atoms)
            elif op == 4:
                toks.insert(i, rng.choice(atoms))
            elif op == 5:
                toks[i:i + 1] = ['(', toks[i], ')']
            else:
                j = rng.randrange(i, min(len(toks), i + 4))
                toks[i:j + 1] = ['('] + toks[i:j + 1] + [')']
        res, depth = [], 0
        for t in toks:
            if t == ')':
                if depth == 0:
                    continue
                depth -= 1
            elif t == '(':
                depth += 1
            res.append(t)
        out.append(' '.join(res) + ')' * depth)
    return out


def _tampered(impl, mod, name, tamper):
    """the implementation side of the comparison, deliberately changed (negative control)"""
    nodes = impl.nodes
    if tamper == 'depth2':           # look at the children of the commands as well
        return lambda exprs: any(mod.is_relevant(n) for n in nodes.dfs(exprs, max_depth=2))
    if tamper == 'no-ident':         # drop the has_ident test
        preds = {'arithmetic': lambda t: t in ['Int', 'Real'], 'bv': lambda t: mod.is_bv_sort(t),
                 'fp': lambda t: mod.is_fp_sort(t) or mod.is_rm_sort(t), 'strings': lambda t: t in ['String', 'RegLan'] or mod.is_seq_type(t)}
        if name not in preds:
            return None
        return lambda exprs: any(nodes.contains(n, preds[name]) for n in nodes.dfs(exprs, max_depth=1))
    if tamper == 'bv-numeral' and name == 'bv':      # a bit-vector sort needs a numeral width
        ok = lambda t: mod.is_bv_sort(t) and t[2].is_leaf() and t[2].data.isdigit()  # noqa: E731
        return lambda exprs: any(n.has_ident() and nodes.contains(n, ok) for n in nodes.dfs(exprs, max_depth=1))
    if tamper == 'fp-prefix' and name == 'fp':       # every leaf that starts with Float
        ok = lambda t: mod.is_fp_sort(t) or mod.is_rm_sort(t) or (t.is_leaf() and t.data.startswith('Float'))  # noqa: E731
        return lambda exprs: any(n.has_ident() and nodes.contains(n, ok) for n in nodes.dfs(exprs, max_depth=1))
    if tamper == 'seq-arity' and name == 'strings':  # (Seq S) needs exactly one argument
        ok = lambda t: t in ['String', 'RegLan'] or (mod.is_seq_type(t) and len(t) == 2)  # noqa: E731
        return lambda exprs: any(n.has_ident() and nodes.contains(n, ok) for n in nodes.dfs(exprs, max_depth=1))
    return None


def _cleaner(impl, tamper):
    """smtlib.without_comments, or a deliberately different cleaning (negative controls); None if the implementation has none"""
    wc = getattr(impl.smtlib, 'without_comments', None)
    if tamper == 'no-clean':     # also the way to show that the tree before the repair is flagged by the repaired model
        return lambda n: n
    if wc is None or tamper not in ('no-unquote', 'unquote-short', 'keep-empty'):
        return wc
    Node = impl.Node

    def go(n):
        if n.is_leaf():
            d = n.data
            if d[:1] == ';':
                return None
            if tamper == 'no-unquote':
                return n
            if len(d) >= (2 if tamper == 'unquote-short' else 3) and d[0] == '|' and d[-1] == '|':
                return Node(d[1:-1])
            return n
        kids = [k for k in map(go, n.data) if k is not None]
        if tamper == 'keep-empty' and not kids and len(n.data) > 0:
            return None        # a list of comments only disappears instead of becoming ()
        return Node(*kids)
    return go


def run(ctx, impl, model, rng, texts, nfuzz=600, tamper=None, with_corpus=True):
    from ddsmt import mutators
    nodes = impl.nodes
    groups = mutators.get_all_mutators()
    calls, meta = [], []
    for name, tdata in groups.items():
        calls.append((151, w_str(name)))
        meta.append(('has', name, name, int(hasattr(tdata[0], 'is_relevant'))))
    detectable = [(name, tdata[0]) for name, tdata in groups.items() if hasattr(tdata[0], 'is_relevant')]
    fixed = [name for name, tdata in groups.items() if not hasattr(tdata[0], 'is_relevant')]
    refs = {}
    for name, mod in detectable:
        ref = lambda exprs, mod=mod: any(mod.is_relevant(n) for n in nodes.dfs(exprs, max_depth=1))  # noqa: E731
        if tamper is not None:
            ref = _tampered(impl, mod, name, tamper) or ref
        refs[name] = ref
    clean = _cleaner(impl, tamper)
    real_clean = getattr(impl.smtlib, 'without_comments', None)
    if clean is None:
        ctx.count('relevance: implementation without smtlib.without_comments (raw comparison only)')
    alltexts = list(texts) + (corpus(rng, nfuzz) if with_corpus else [])
    seen, seen_nodes = set(), set()
    for text in alltexts:
        try:
            exprs = impl.parse(text)
        except Exception:  # noqa
            ctx.count('relevance texts the reader refuses')
            continue
        ctx.count('relevance texts')
        if any(n.is_leaf() and n.data[:1] == ';' for n in nodes.dfs(exprs)):
            ctx.count('relevance texts with comments')
        if any(n.is_leaf() and len(n.data) > 2 and n.data[0] == '|' for n in nodes.dfs(exprs)):
            ctx.count('relevance texts with quoted symbols')
        # smtlib.without_comments on every top-level node
        if real_clean is not None:
            for e in exprs:
                sh = impl.to_shape(e)
                if repr(sh) in seen_nodes:
                    continue
                seen_nodes.add(repr(sh))
                try:
                    c = clean(e)
                    want = [] if c is None else [common.w_shape(impl.to_shape(c))]
                except Exception as ex:  # noqa
                    want = f'raises {type(ex).__name__}'
                calls.append((153, common.w_shape(sh)))
                meta.append(('clean', 'without_comments', str(e)[:300], want))
        scripts = [exprs] + ([[e] for e in exprs] if len(exprs) > 1 else [])
        for sc in scripts:
            shapes = impl.to_shapes(sc)
            key = repr(shapes)
            if key in seen:
                continue
            seen.add(key)
            wsc = w_shapes(shapes)
            shown = ' '.join(str(e) for e in sc)[:300]
            cleaned = None
            if clean is not None:
                try:
                    cleaned = [c for c in map(clean, sc) if c is not None]
                except Exception as ex:  # noqa
                    cleaned = ex
            for name, _mod in detectable:
                try:
                    want = int(bool(refs[name](sc)))
                except Exception as e:  # noqa
                    want = f'raises {type(e).__name__}'
                calls.append((152, [w_str(name), wsc]))
                meta.append(('raw', name, shown, want))
                if clean is not None:
                    try:
                        if isinstance(cleaned, Exception):
                            raise cleaned
                        want = int(bool(refs[name](cleaned)))
                    except Exception as e:  # noqa
                        want = f'raises {type(e).__name__}'
                    calls.append((150, [w_str(name), wsc]))
                    meta.append(('rel', name, shown, want))
            if fixed and rng.random() < 0.05:
                name = rng.choice(fixed)
                calls.append((150, [w_str(name), wsc]))
                meta.append(('fixed', name, shown, 1))
    res = model.batch(calls)
    for (kind, name, shown, want), got in zip(meta, res):
        if kind == 'has':
            ctx.count('relevance: hasattr(is_relevant) comparisons')
            if got != want:
                ctx.disagree('hasattr(theory, is_relevant) vs Model/Relevance.v has_is_relevant', input=name, impl=want, model=got)
            continue
        if kind == 'clean':
            ctx.count('relevance: without_comments comparisons')
            if want == []:
                ctx.count('relevance: without_comments answers None')
            if got != want:
                ctx.disagree('smtlib.without_comments vs Model/Relevance.v without_comments', input=shown, impl=repr(want)[:300], model=repr(got)[:300])
            continue
        ctx.count('relevance model comparisons')
        ctx.case((kind, name, shown), nontrivial=True)
        if kind == 'rel':
            ctx.count(f'relevance {name}: ' + ('relevant' if want == 1 else 'not relevant' if want == 0 else 'raises'))
        if kind == 'raw':
            ctx.count('relevance raw comparisons (relevant_raw)')
            if got != want:
                ctx.disagree(f'is_relevant of {name} over dfs(max_depth=1) on the script as it is vs Model/Relevance.v relevant_raw', input=shown, impl=want, model=got)
            continue
        if got != want:
            ctx.disagree(f'is_relevant of {name} over dfs(max_depth=1) of the cleaned script vs Model/Relevance.v relevant', input=shown, impl=want, model=got)
    return len(calls)


def main(argv):
    import random
    import impl
    import smtgen
    n = int(argv[1]) if len(argv) > 1 else 2000
    rng = random.Random(20261002)
    ok, log = common.build_driver()
    if not ok:
        raise common.BuildError(log[-3000:])
    texts = []
    for i in range(n):
        kw = dict(nasserts=rng.choice([1, 2, 3]), depth=rng.choice([1, 2, 3]))
        if i % 3 == 0:      # few theories: most groups are not relevant
            pool = ['ints', 'reals', 'bv', 'strings', 'arrays', 'fp', 'dt']
            kw['theories'] = ['core'] + rng.sample(pool, rng.choice([0, 1, 1, 2]))
        if i % 5 == 0:
            kw['exotic'] = 0.3
        g, cmds = smtgen.gen_script(rng, **kw)
        texts.append(smtgen.script_text(cmds))
    ctx = common.Ctx('C14', 'quick', 1)
    ncalls = run(ctx, impl, common.Model(), rng, texts)
    print(f'generated scripts: {n}; model calls: {ncalls}; disagreements: {len(ctx.disagreements)}')
    for k in sorted(ctx.dist):
        print(f'  {k}: {ctx.dist[k]}')
    for d in ctx.disagreements[:10]:
        print('  DISAGREE', d)
    rc = 0 if not ctx.disagreements else 1
    # negative controls: the implementation side is changed on purpose; every one of them must be noticed
    for tamper in ('depth2', 'no-ident', 'bv-numeral', 'fp-prefix', 'seq-arity', 'no-clean', 'no-unquote', 'unquote-short', 'keep-empty'):
        if tamper in ('no-unquote', 'unquote-short', 'keep-empty') and not hasattr(impl.smtlib, 'without_comments'):
            print(f'negative control {tamper}: not applicable (the implementation has no smtlib.without_comments)')
            continue
        c2 = common.Ctx('C14', 'quick', 1)
        run(c2, impl, common.Model(), random.Random(7), texts[:50], nfuzz=100, tamper=tamper)
        print(f'negative control {tamper}: {len(c2.disagreements)} disagreements' + (' (DETECTED)' if c2.disagreements else ' (NOT DETECTED)'))
        if c2.disagreements:
            d = c2.disagreements[0]
            print('   e.g.', d['function'][:40], repr(d['input'][:100]), 'impl', d['impl'], 'model', d['model'])
        else:
            rc = 1
    impl.cleanup()
    return rc


if __name__ == '__main__':
    import sys
    sys.exit(main(sys.argv))
