"""Generation of end-to-end jobs (input, options, scripted command) shared by the run-level checks."""
import random

import e2e
import smtgen

SAFE_TH = ['ints', 'reals', 'bv', 'arrays', 'dt', 'fp', 'strings']


def gen_input(rng, size='small'):
    th = ['core'] + [t for t in SAFE_TH if rng.random() < 0.35]
    if 'ints' not in th and rng.random() < 0.7:
        th.append('ints')
    g, cmds = smtgen.gen_script(rng, theories=th, nasserts=rng.choice([2, 3, 4] if size == 'small' else [5, 8, 12]),
                                depth=rng.choice([2, 3]))
    return smtgen.script_text(cmds)


def pick_predicate(rng, text):
    toks = [t for t in e2e.sh_tokens(text) if t not in '()' and not t.startswith('"') and not t.endswith('"')
            and t not in ('set-logic', 'ALL', 'set-info', ':status', 'unknown', 'check-sat', 'exit')]
    body = [t for t in toks if t not in ('declare-const', 'declare-fun', 'assert', 'define-fun', 'declare-datatype')]
    k = rng.choice([1, 1, 2, 2, 3])
    chosen = rng.sample(sorted(set(body)), min(k, len(set(body)))) if body else ['assert']
    mode = rng.choice(['all', 'all', 'hash5', 'hash3'])
    if mode.startswith('hash'):
        # make sure the original input shows the "bug" (otherwise everything reduces to nothing)
        v = int(e2e.sh_digest(text)[:6], 16)
        if v % int(mode[4:]) == 0:
            mode = 'all'
    return [e2e.TOKPRED, mode] + chosen


def job(rng, strategy=None, jobs=None, fmt=None, size='small', extra=(), delays=True):
    text = gen_input(rng, size)
    cmd = pick_predicate(rng, text)
    strategy = strategy or rng.choice(['ddmin', 'hierarchical', 'hybrid'])
    jobs = jobs or rng.choice([1, 2, 3, 4])
    fmt = fmt if fmt is not None else rng.choice([[], [], ['--pretty-print'], ['--wrap-lines']])
    opts = ['--strategy', strategy, '-j', str(jobs)] + list(fmt) + list(extra)
    env = {}
    if delays and jobs > 1:
        env['VERIF_WORKER_DELAY'] = str(rng.choice([0, 2, 8]))
        env['VERIF_CMD_DELAY'] = str(rng.choice([1, 5, 15]))
        if rng.random() < 0.5:
            env['VERIF_SLOW_ADOPT'] = str(rng.choice([5, 20, 50]))
        if rng.random() < 0.4:
            env['VERIF_SLOW_CONSUMER'] = str(rng.choice([3, 10]))
    return dict(text=text, opts=opts, cmd=cmd, env=env)
