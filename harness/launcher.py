"""TIE-H launcher: runs the real ddSMT (imported from /repo, current working
tree) with module-level functions wrapped so that the event history of the run
is recorded.  No source hooks: everything is done from here.

usage: launcher.py <logdir> <ddsmt arguments...>
Exit status = what `python -m ddsmt` would return.

Environment:
  VERIF_SLOW_CONSUMER=<ms>   sleep in the main loop's write (perturbs completion orders)
  VERIF_SLOW_ADOPT=<ms>      sleep between receiving a success and setting the abort flag (hierarchical)
  VERIF_WORKER_DELAY=<ms>    random delay (0..ms, derived from pid/time) before each check in a worker
"""
import hashlib
import json
import multiprocessing
import os
import random
import sys
import threading
import time

multiprocessing.set_start_method('fork')
LOGDIR = sys.argv[1]
REPO = os.environ.get('VERIF_REPO', '/repo')
sys.path.insert(0, REPO)
sys.argv = ['ddsmt'] + sys.argv[2:]
MAIN_PID = os.getpid()
_lock = threading.Lock()
_files = {}


def log(ev, **kw):
    pid = os.getpid()
    kw['ev'] = ev
    kw['t'] = time.monotonic_ns()
    kw['pid'] = pid
    kw['main'] = pid == MAIN_PID
    kw['thread'] = threading.current_thread().name
    line = json.dumps(kw, default=str) + '\n'
    with _lock:
        f = _files.get(pid)
        if f is None:
            f = _files[pid] = open(os.path.join(LOGDIR, f'events-{pid}.jsonl'), 'a', buffering=1)
        f.write(line)


from ddsmt import nodes, nodeio, options, checker, smtlib, mutator_utils, tmpfiles  # noqa: E402
from ddsmt import strategy_hierarchical as sh, strategy_ddmin as sd, cli, __main__ as ddmain  # noqa: E402


def toks(exprs):
    out = []
    for e in exprs:
        stack = [e]
        while stack:
            x = stack.pop()
            if x is None:
                out.append(')')
            elif not isinstance(x, nodes.Node):
                out.append(f'<{type(x).__name__}>')
            elif x.is_leaf():
                out.append(x.data)
            else:
                out.append('(')
                stack.append(None)
                stack.extend(reversed(x.data))
    return out


_FRESH = __import__('re').compile(r'^x\d+__fresh$')


def norm_fresh(tk):
    """tokens with x<id>__fresh names renamed by first occurrence (digests are taken modulo this renaming: F18)"""
    ren = {}
    return [ren.setdefault(t, f'x#{len(ren)}__fresh') if _FRESH.match(t) else t for t in tk]


def dig(exprs):
    try:
        return hashlib.sha1('\x00'.join(norm_fresh(toks(exprs))).encode()).hexdigest()[:16]
    except Exception as e:  # noqa
        return f'undigestable:{type(e).__name__}'


def dup_ids(exprs):
    seen, dup = set(), 0
    for n in nodes.dfs(exprs):
        if n.id in seen:
            dup += 1
        seen.add(n.id)
    return dup


_rnd = random.Random(os.getpid() ^ time.time_ns())
WD = int(os.environ.get('VERIF_WORKER_DELAY', '0'))
SC = int(os.environ.get('VERIF_SLOW_CONSUMER', '0'))
SA = int(os.environ.get('VERIF_SLOW_ADOPT', '0'))

# ---- writes to the output file
_orig_write = nodeio.write_smtlib_to_file


def write_smtlib_to_file(filename, exprs):
    tk = toks(exprs)
    log('write', file=filename, digest=dig(exprs), ntok=len(tk), toks=tk if len(tk) <= 400 else None)
    if SC:
        time.sleep(SC / 1000.0)
    r = _orig_write(filename, exprs)
    log('write_done', file=filename)
    return r


nodeio.write_smtlib_to_file = write_smtlib_to_file

# ---- every test
_orig_check_exprs = checker.check_exprs
_last_check = {}


def dup_decls(exprs):
    """names declared or defined more than once on the top level of a candidate"""
    seen, dup = set(), set()
    for c in exprs:
        if not c.is_leaf() and len(c) > 1 and c[0].is_leaf() and c[1].is_leaf() and c[0].data in (
                'declare-const', 'declare-fun', 'define-fun', 'define-const', 'define-fun-rec', 'declare-sort', 'define-sort'):
            n = c[1].data
            if n in seen:
                dup.add(n)
            seen.add(n)
    return sorted(dup)


def check_exprs(exprs):
    if WD and os.getpid() != MAIN_PID:
        time.sleep(_rnd.randint(0, WD) / 1000.0)
    d = dig(exprs)
    _last_check['digest'] = d
    try:
        r = _orig_check_exprs(exprs)
    except BaseException as e:
        log('check', digest=d, verdict=f'exception:{type(e).__name__}')
        raise
    dd = dup_decls(exprs)
    if dd:
        log('check', digest=d, verdict=bool(r), dup_decl=dd)
    else:
        log('check', digest=d, verdict=bool(r))
    return r


checker.check_exprs = check_exprs

# ---- golden runs
_orig_golden = checker.do_golden_runs


def do_golden_runs():
    r = _orig_golden()
    g = getattr(checker, '__GOLDEN')
    log('golden', exit=g.exit, out=g.out, err=g.err, timeout=options.args().timeout, runtime=g.runtime)
    return r


checker.do_golden_runs = do_golden_runs

# ---- sweeps of the hierarchical strategy
_orig_collect = smtlib.collect_information


def collect_information(exprs):
    log('collect', digest=dig(exprs), dup_ids=dup_ids(exprs), nnodes=nodes.count_nodes(exprs))
    return _orig_collect(exprs)


smtlib.collect_information = collect_information

_orig_get_pass = sh.get_pass


def get_pass(passes, id):
    r = _orig_get_pass(passes, id)
    log('pass', id=id, npasses=len(passes), mutators=[type(m).__name__ for m in r[0]], params=r[1])
    return r


sh.get_pass = get_pass

_OrigProducer = sh.Producer


class Producer(_OrigProducer):
    def __init__(self, mutators, abort_flag, original):
        self._v_digest = dig(original)
        self._v_orig = original
        log('producer', digest=self._v_digest, dup_ids=dup_ids(original), mutators=[type(m).__name__ for m in mutators])
        super().__init__(mutators, abort_flag, original)

    def generate(self, skip, params):
        log('sweep', skip=skip, params=params, digest=self._v_digest)
        n = 0
        for task in super().generate(skip, params):
            n += 1
            log('gen', nodeid=task.nodeid, name=task.name, simp=hashlib.sha1(task.simp).hexdigest()[:12])
            yield task
        log('gen_end', generated=n)


sh.Producer = Producer

_OrigConsumer = sh.Consumer


class Consumer(_OrigConsumer):
    def check(self, task):
        import pickle
        _last_check.pop('digest', None)
        res = super().check(task)
        success, t = pickle.loads(res)
        log('worker', nodeid=task.nodeid, name=task.name, base=hashlib.sha1(task.exprs).hexdigest()[:12],
            simp=hashlib.sha1(task.simp).hexdigest()[:12], success=success, aborted=(t.runtime is None and not success),
            cand=dig(t.exprs) if success else _last_check.get('digest'))
        return res


sh.Consumer = Consumer

_orig_stats_add = sh.MutatorStats.add


def stats_add(self, success, task, original):
    log('consume', success=success, nodeid=task.nodeid, name=task.name, cand=dig(task.exprs) if success else None)
    if SA and success:
        # the main loop is slow between receiving a success and setting the abort flag
        time.sleep(SA / 1000.0)
    return _orig_stats_add(self, success, task, original)


sh.MutatorStats.add = stats_add

_orig_redup = nodes.reduplicate


def reduplicate(exprs):
    r = _orig_redup(exprs)
    log('redup', before=dig(exprs), after=dig(r), dup_before=dup_ids(exprs), dup_after=dup_ids(r))
    return r


nodes.reduplicate = reduplicate

# ---- ddmin
_OrigTaskGen = sd.TaskGenerator


def stale_tables(exprs):
    """nodes of the given input that the id-based tables of smtlib do not know although they should: index numerals of
    indexed identifiers that are not marked as indices, and declared names that are not marked as definition nodes
    (the tables are filled by collect_information for the ids of ITS input)"""
    n = 0
    try:
        indices = getattr(smtlib, '__indices')
        defs = getattr(smtlib, '__definition_node_ids')
    except AttributeError:
        return None
    for x in nodes.dfs(exprs):
        if x.is_leaf():
            continue
        if len(x) > 2 and x[0].is_leaf() and x[0].data == '_':
            n += sum(1 for c in x[2:] if c.is_leaf() and c.data.isdigit() and c.id not in indices)
        if len(x) == 3 and x[0].is_leaf() and x[0].data == 'declare-const' and x[1].is_leaf() and x[1].id not in defs:
            n += 1
    # the table of defined functions: the recorded body of a nullary definition is the body it has in THIS input
    try:
        for c in exprs:
            if (not c.is_leaf()) and len(c) == 5 and c[0].is_leaf() and c[0].data == 'define-fun' and c[1].is_leaf() \
                    and (not c[2].is_leaf()) and len(c[2]) == 0:
                last = [d_ for d_ in exprs if (not d_.is_leaf()) and len(d_) == 5 and d_[0].is_leaf() and d_[0].data == 'define-fun' and d_[1] == c[1]][-1]
                if (not smtlib.is_defined_fun(c[1])) or str(smtlib.get_defined_fun(nodes.Node(c[1].data))) != str(last[4]):
                    n += 1
    except Exception:  # noqa
        pass
    return n


class TaskGenerator(_OrigTaskGen):
    def __init__(self, exprs, gran, mutator, max_depth=None):
        stale = stale_tables(exprs)         # before the filters of the mutator consult the tables
        super().__init__(exprs, gran, mutator, max_depth)
        if stale:
            log('stale_tables', digest=dig(exprs), count=stale, mutator=type(mutator).__name__, gran=gran)
        log('taskgen', digest=dig(exprs), dup_ids=dup_ids(exprs), mutator=type(mutator).__name__, gran=self.gran,
            nsubsets=len(self.subsets), parallel=self.pickled_exprs is not None, mid=getattr(mutator, '_verif_id', None),
            num_filtered=self.num_filtered, nexprs=nodes.count_exprs(exprs), first=gran is None)

    def __next__(self):
        if not getattr(self, '_verif_stale_logged', False):
            st = stale_tables(self.exprs)       # the tables must follow every acceptance within the round, too
            if st:
                self._verif_stale_logged = True
                log('stale_tables', digest=dig(self.exprs), count=st, mutator=type(self.mutator).__name__, gran=self.gran)
        t = super().__next__()
        log('ddmin_task', id=t.id, base=dig(self.exprs))
        return t

    def update(self, exprs):
        log('ddmin_update', digest=dig(exprs), nexprs=nodes.count_exprs(exprs))
        return super().update(exprs)

    def reset(self, index):
        log('ddmin_reset', index=index)
        return super().reset(index)


sd.TaskGenerator = TaskGenerator

# the pass lists of the ddmin strategy: every mutator instance gets a number (stage * 1000 + position)
_orig_ddmin_passes = sd.ddmin_passes


def ddmin_passes():
    ps = _orig_ddmin_passes()
    for st, ms in enumerate(ps):
        for k, m in enumerate(ms):
            m._verif_id = (st + 1) * 1000 + k
    log('ddmin_passes', stages=[[m._verif_id for m in ms] for ms in ps], names=[[str(m) for m in ms] for ms in ps])
    return ps


sd.ddmin_passes = ddmin_passes

# one call per consumed result, in the main process, after the result has been dealt with
_orig_progress = sd._print_progress


def _print_progress(*a, **k):
    log('ddmin_progress')
    return _orig_progress(*a, **k)


sd._print_progress = _print_progress

_orig_worker = sd._worker


def _worker(task):
    flag = getattr(sd, '__abort_flag', None)
    try:
        saw_abort = bool(flag and flag.is_set())
    except Exception:  # noqa
        saw_abort = False
    r = _orig_worker(task)
    stale = None
    if isinstance(task.exprs, bytes) and not (saw_abort and r.tests == 0):
        # which input did the worker really work on?  (its cached copy must be the one the task carries)
        try:
            import pickle
            given = dig(pickle.loads(task.exprs))
            used = getattr(sd, '__cached_exprs', None)
            stale = (used is not None and dig(used) != given)
        except Exception:  # noqa
            stale = None
    log('ddmin_result', id=r.task_id, success=r.success, tests=r.tests, cand=dig(r.exprs) if r.success else None,
        aborted=(saw_abort and not r.success and r.tests == 0), stale_base=stale)
    return r


sd._worker = _worker

_orig_hreduce, _orig_dreduce = sh.reduce, sd.reduce


def hreduce(exprs):
    log('strategy', name='hierarchical', digest=dig(exprs))
    r = _orig_hreduce(exprs)
    log('strategy_end', name='hierarchical', digest=dig(r[0]), ntests=r[1])
    return r


def dreduce(exprs):
    log('strategy', name='ddmin', digest=dig(exprs))
    r = _orig_dreduce(exprs)
    log('strategy_end', name='ddmin', digest=dig(r[0]), ntests=r[1])
    return r


sh.reduce, sd.reduce = hreduce, dreduce

_orig_parse = nodeio.parse_smtlib


def parse_smtlib(text):
    res = list(_orig_parse(text))
    log('parsed', digest=dig(res), nexprs=len(res), dup_decl=dup_decls(res))
    return iter(res)


nodeio.parse_smtlib = parse_smtlib

if __name__ == '__main__':
    log('start', argv=sys.argv)
    try:
        rc = ddmain.main()
    except SystemExit as e:
        log('exit', code=e.code, how='SystemExit')
        raise
    except BaseException as e:
        import traceback
        log('exit', code='traceback', how=f'{type(e).__name__}: {e}', tb=traceback.format_exc()[-2000:])
        raise
    log('exit', code=rc, how='return')
    sys.exit(rc)
